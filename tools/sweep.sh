#!/bin/bash
# usage: tools/sweep.sh "<seeds>" [tier] [check ids...]  — runs the checks for several VERIF_SEED values, prints one line each
SEEDS=$1; TIER=${2:-quick}; shift 2 2>/dev/null
IDS=${@:-$(python3 -c "import json;print(' '.join(c['property_id'] for c in json.load(open('MANIFEST.json'))['checks']))")}
for s in $SEEDS; do for c in $IDS; do
  out=$(./vcheck $c --tier $TIER --seed $s 2>&1); rc=$?
  echo "seed=$s $c rc=$rc $(echo "$out" | grep -c KNOWN-FINDING) known | $(echo "$out" | grep "VIOLATION\|HARNESS-TROUBLE\|violation:" | head -3 | tr '\n' ' ' | cut -c1-400)"
done; done
