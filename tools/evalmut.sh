#!/bin/bash
# usage: tools/evalmut.sh <ID> <mN> <demo-dest-relative-path> <check ids...>
# Confirms a seeded change (compiles, touched packages' tests pass, demo fails with / passes without) in a
# scratch worktree and runs the named checks against it. Leaves nothing behind.
set -u
ID=$1; M=$2; DEST=$3; shift 3
SRC=${MUTOUT:-/tmp/mutout}/$ID/$M
WT=/tmp/evalmut-$ID-$M
export GOFLAGS=-mod=mod GOPROXY=off GOSUMDB=off GOTOOLCHAIN=local
export PATH=/root/go/pkg/mod/golang.org/toolchain@v0.0.1-go1.25.0.linux-amd64/bin:$PATH
git -C /repo worktree remove --force $WT 2>/dev/null
git -C /repo worktree add -q $WT HEAD || exit 2
cd $WT
PKG=./$(dirname $DEST)/
DEMO=$(ls $SRC/*_test.go 2>/dev/null | head -1)
RUN=$(grep -ho "func Test[A-Za-z0-9_]*" $DEMO | sed 's/func //' | paste -sd'|')
cp $DEMO $DEST
echo "== demo WITHOUT patch ($PKG -run '$RUN')"
go test ${DEMOFLAGS:-} -vet=off -count=1 -run "^($RUN)\$" $PKG 2>&1 | tail -3
git apply $SRC/patch.diff || { echo "PATCH DOES NOT APPLY"; exit 2; }
echo "== build"; go build ./... 2>&1 | tail -3
echo "== demo WITH patch"
go test ${DEMOFLAGS:-} -vet=off -count=1 -run "^($RUN)\$" $PKG 2>&1 | tail -4
rm -f $DEST
echo "== existing tests of touched packages WITH patch"
PKGS=$(git diff --name-only | xargs -n1 dirname | sort -u | sed 's#^#./#; s#$#/#' | paste -sd' ')
go test -vet=off -count=1 $PKGS 2>&1 | tail -5
cd /verif
for c in "$@"; do
  echo "== check $c against the change"
  VERIF_REPO=$WT ./vcheck $c 2>&1 | grep -v "^probes\|^note\|KNOWN-FINDING" | cut -c1-600 | head -8
done
git -C /repo worktree remove --force $WT
