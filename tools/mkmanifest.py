#!/usr/bin/env python3
"""Regenerates /verif/MANIFEST.json from the tables below (single source of truth)."""
import json, os, subprocess
V = os.path.dirname(os.path.dirname(os.path.abspath(__file__)))

NA = {
"C08":"Pure function of (rules config, trace); no schedule, clock, fault or interleaving to simulate.",
"C09":"Pure function of the decoded span multiset; wire encodings and permutations are input variations, not schedules.",
"C10":"Purity of a hash-threshold function of (trace ID, rate); nothing for a simulator to schedule or fault.",
"C11":"Pure function of a trace's field-value sets; input-only.",
"C14":"Pure function of (API key shape, env, dataset, config); input-only.",
"C20":"Codec round-trip property of payload bytes; input-only.",
"C21":"Pure function of (event fields, ID-field config); input-only.",
"C22":"Pure parsing/formatting function of the timestamp input.",
"C24":"Pure function of (config, key, endpoint); its distinguishing half is gRPC, which needs real sockets and cannot run in the simulator.",
"C25":"Pure function of (configured token, presented token).",
"C28":"Quantifies over all byte strings and configs: a fuzzing target, not a schedule/fault one.",
"C29":"Pure function of (flags, environment, files, defaults).",
"C37":"Input-only relay property (method/path/headers/body in, same out); no schedule or fault in its statement.",
"C38":"Offline pure transformation of files.",
}
ALL_CLAIMED = ["C01","C02","C03","C04","C05","C06","C07","C12","C13","C15","C16","C17","C18","C19","C23","C26","C27","C30","C31","C32","C33","C34","C35","C36"]

# id -> (world/engine, technique, level text, level note, design ref)
BUILT = json.load(open(os.path.join(V, "tools", "checks.json")))

def hook_commits():
    try:
        out = subprocess.run(["git","-C","/repo","log","--format=%h %s"],stdout=subprocess.PIPE,text=True).stdout
        return [l.split()[0] for l in out.splitlines() if " verif-hook:" in " "+l.split(" ",1)[1] or l.split(" ",1)[1].startswith("verif-hook")]
    except Exception:
        return []

checks = []
for cid in sorted(BUILT):
    b = BUILT[cid]
    checks.append({
        "property_id": cid,
        "quick_cmd": "./vcheck %s --tier quick" % cid,
        "thorough_cmd": "./vcheck %s --tier thorough" % cid,
        "evidence_file": "/verif/evidence/%s.json" % cid,
        "replay_cmd_template": "./vcheck replay {path}",
        "engine": b["engine"],
        "level_claimed": {"category": "exploration", "text": b["level_text"], "design_ref": "DESIGN.md section 6 " + cid},
        "level_note": b["level_note"],
        "technique": b["technique"],
    })
engines = {}
for cid, b in BUILT.items():
    engines.setdefault(b["engine"], []).append(cid)
m = {
 "version": 1,
 "setup_cmd": "./vcheck setup",
 "hooks": {"guard": "verif",
           "enable": "go test -c -tags verif, harness sources compiled into the refinery module via -overlay/-modfile (see vcheck build)",
           "baseline_off_cmd": "cd /repo && go test -mod=mod -vet=off -count=1 -timeout 25m ./...",
           "source_commits": hook_commits(), "add_only": True},
 "engines": [{"name": e, "path": "/verif/sim", "serves_properties": sorted(ps), "kind_free_text": "deterministic simulation (synctest bubble + seeded driver) with fault injection"} for e, ps in sorted(engines.items())],
 "checks": checks,
 "not_applicable": [{"property_id": k, "reason": v} for k, v in sorted(NA.items())] +
     [{"property_id": k, "reason": "check designed (DESIGN.md section 6) but not built yet; will move to checks when its simulation world exists"} for k in ALL_CLAIMED if k not in BUILT],
 "notes": "Deterministic simulation with fault injection; one seed = one replayable run; see DESIGN.md. known_findings.json lists recorded/fixed defects.",
}
json.dump(m, open(os.path.join(V, "MANIFEST.json"), "w"), indent=1)
print("MANIFEST.json: %d checks, %d not_applicable" % (len(checks), len(m["not_applicable"])))
