#!/usr/bin/env python3
"""Store sub-agent deliverables (/tmp/mutout/<ID>/<m>) as /verif/seeded/<ID>-<m>/ with meta.json.
usage: seedstore.py  (table below)"""
import json, os, re, shutil, sys
T = [
 # id, m, demo dest, caught_by {check: invariant}, first result, strengthening
 ("C02","m1","collect/demo_c02_m1_test.go",{"C02":"trace_never_decided"},"caught",""),
 ("C02","m2","collect/demo_c02_m2_test.go",{"C02":"dry_run_span_not_forwarded","C05":"dry_run_span_not_forwarded"},"missed by C02 (caught by C05), then caught by C02 after strengthening","the dry-run oracle reported the lost span under C05 only; C02's statement covers dry run too, so it is now reported under both"),
 ("C04","m1","collect/demo_c04_m1_test.go",{"C04":"late_span_under_stress_uses_wrong_rate"},"missed, then caught after strengthening","C04 had no stress path: a quarter of its runs are now World B stress plans with traces decided before the stress began (late spans at the stressed owner must carry the recorded rate)"),
 ("C04","m2","collect/demo_c04_m2_test.go",{"C04":"trace_rate_below_one"},"missed, then caught after strengthening","sampler preset 11 (rule with neither sampler nor rate: SampleRate 0, Drop false) added to the generator"),
 ("C05","m1","collect/zz_demo_m1_test.go",{"C05":"dry_run_kept_field_wrong"},"caught",""),
 ("C05","m2","collect/zz_demo_m2_test.go",{"C05":"dry_run_sample_rate"},"caught",""),
 ("C06","m1","collect/demo_c06_m1_test.go",{"C06":"root_span_count"},"caught",""),
 ("C06","m2","collect/demo_c06_m2_test.go",{"C06":"hostname_missing"},"caught",""),
 ("C12","m1","sample/demo_c12_m1_test.go",{"C12":"different_definitions_share_state"},"caught",""),
 ("C12","m2","collect/demo_c12_m2_test.go",{"C12":"identical_definitions_not_shared"},"missed, then caught after strengthening","new schedule: the collector's reload callback is stalled half way (StressReliever.UpdateFromConfig double) while a worker decides a trace"),
 ("C13","m1","sample/demo_c13_m1_test.go",{"C13":"throughput_goal"},"missed, then caught after strengthening","new schedule: gated Peers double stalls a lazy sampler creation's GetPeers after it took its answer; a membership change completes (or waits for the factory lock); the creation goes on"),
 ("C13","m2","sample/demo_c13_m2_test.go",{"C13":"throughput_goal"},"caught",""),
 ("C15","m1","collect/demo_c15m1_test.go",{"C15":"deactivated_before_minimum_duration"},"caught",""),
 ("C15","m2","collect/demo_c15m2_test.go",{"C15":"cluster_level_not_rms_of_recent_reports"},"caught",""),
 ("C17","m1","sharder/demo_c17_test.go",{"C17":"nodes_disagree_on_owner"},"missed, then caught after strengthening","sharder-only part now gives every view its own history of membership changes (same-size replacements, joins, leaves) ending in the common list"),
 ("C17","m2","sharder/demo_c17_test.go",{"C17":"owner_not_a_peer"},"missed, then caught after strengthening","a fifth of C17's runs are World D membership histories (crash, restart, partition, loss) with a real DeterministicSharder on every node's real RedisPubsubPeers: after convergence the owner must be in the list the node sees and nodes with equal lists agree"),
 ("C19","m1","transmit/demo_c19_m1_test.go",{"C19":"forwarded_event_envelope_altered"},"missed, then caught after strengthening","two tenants (API keys) sharing dataset names in the generator"),
 ("C19","m2","route/demo_c19_m2_test.go",{"C19":"event_handled_more_than_once","C16":"stressed_trace_buffered"},"missed, then caught after strengthening","a fifth of C19's runs are stress-relief plans judged for the one-path rule"),
 ("C27","m1","config/demo_m1_test.go",{"C27":"listener_notified_too_often"},"missed, then caught after strengthening","half of the concurrent runs fetch config and rules from URLs through http.DefaultClient's transport, which yields to the task scheduler after choosing the body; new end-state oracle newest_change_lost"),
 ("C27","m2","config/demo_m2_test.go",{"C27":"listener_not_notified"},"caught",""),
 ("C30","m1","internal/health/demo_m1_test.go",{"C30":"silent_subsystem_not_reported_dead"},"caught",""),
 ("C30","m2","internal/health/demo_m2_test.go",{"C30":"ready_without_all_subsystems_ready"},"caught",""),
 ("C32","m1","generics/zz_demo_test.go",{"C32":"queries_disagree"},"caught",""),
 ("C32","m2","generics/zz_demo_test.go",{"C32":"queries_disagree","C18":"membership_not_converged"},"caught",""),
 ("C33","m1","metrics/demo_c33m1_test.go",{"C33":"history_not_linearizable"},"caught",""),
 ("C33","m2","metrics/demo_c33m2_test.go",{"C33":"history_not_linearizable"},"caught",""),
 ("C34","m1","agent/demo_m1_test.go",{"C34":"usage_lost"},"caught",""),
 ("C34","m2","agent/demo_m2_test.go",{"C34":"usage_lost"},"missed, then caught after strengthening","fake OpAMP client can answer the single retry with 'pending' again (legal per opamp-go's contract)"),
 ("C35","m1","collect/c35_m1_demo_test.go",{"C35":"data_race"},"missed in the first quick batch, caught after strengthening","40% of the race plans switch relief on from the start on one node so that most traffic there takes the stress path"),
 ("C35","m2","sharder/c35_m2_demo_test.go",{"C35":"data_race"},"caught",""),
 ("C36","m1","collect/shutdown_backlog_demo_test.go",{"C36":"accepted_span_lost_at_shutdown"},"missed, then caught after strengthening","new fault: the collector's sender goroutine is parked (tracer seam) before the shutdown and released after Stop was called, so decided traces are still queued at Stop; the loss depends on Go's random select, so the replay file carries tries>1"),
 ("C36","m2","transmit/shutdown_retry_demo_test.go",{"C36":"accepted_span_lost_at_shutdown"},"missed, then caught after strengthening","new fault: the fake Honeycomb answers batches around the shutdown with 429/503 + Retry-After (once per batch)"),
]
T3 = [
 # wave 3 (deliverables in /tmp/mutout3): stored under new numbers; the six that repeat an earlier change are not stored
 ("C07","m2","collect/demo_c07_m2_test.go",{"C07":"ejected_too_little"},"caught","","C07-m3"),
 ("C16","m1","transmit/zz_demo_c16_test.go",{"C16":"kept_stressed_span_not_delivered_exactly_once","C26":"retry_not_allowed"},"missed, then caught after strengthening","new seam: verif-hook yield at the start of DirectTransmission.sendBatch (SendGate): senders are held after a batch has been taken off the pending list while more events are enqueued for the same destination","C16-m3"),
 ("C16","m2","route/zz_demo_c16_test.go",{"C16":"probe_forwarded_to_honeycomb"},"caught","","C16-m4"),
 ("C18","m2","internal/peer/demo_c18m2_test.go",{"C18":"membership_not_converged"},"caught","","C18-m3"),
 ("C23","m1","route/c23_m1_demo_test.go",{"C23":"valid_event_rejected"},"caught","","C23-m3"),
 ("C23","m2","route/c23_m2_demo_test.go",{"C23":"error_status_but_events_processed"},"missed, then caught after strengthening","OTLP log records now also carry trace IDs (two in three), so they take the collector path and can be refused by a full queue","C23-m4"),
 ("C26","m1","transmit/demo_c26_m1_test.go",{"C26":"event_sent_to_wrong_destination"},"missed, then caught after strengthening","look-alike destinations (parts that run into each other with or without a separator) in the generator","C26-m3"),
 ("C26","m2","transmit/demo_c26_m2_test.go",{"C26":"event_never_sent"},"caught","","C26-m4"),
 ("C31","m1","collect/cache/demo_m1_test.go",{"C31":"kept_decision_forgotten","C01":"trace_decided_twice"},"caught","","C31-m3"),
 ("C31","m2","collect/cache/demo_m2_test.go",{"C31":"dropped_decision_not_answered_dropped"},"missed, then caught after strengthening","the workload never rotated the drop filter (probe filter_rotated stuck at 0): fill bursts now reach rotations, lookups come after the recent-drop TTL, and the model follows the two filter generations (a record routed into the next generation outlives one rotation)","C31-m4"),
]
T4 = [
 # wave 4 (/tmp/mutout4): C04, C13, C15, C27 agents and C12 m2, C19 m2 repeated earlier changes (not stored)
 ("C12","m1","sample/shared_concurrent_demo_test.go",{"C12":"identical_definitions_not_shared"},"missed, then caught after strengthening","new schedule: the Metrics double given to the sampler factory stalls a worker inside the creation of a shared dynsampler (at the registration of its metrics); a second worker is ticked into the creation of the same sampler; the first goes on","C12-m3"),
 ("C17","m1","sharder/demo_test.go",{"C17":"nodes_disagree_on_owner"},"caught","","C17-m3"),
 ("C17","m2","internal/peer/demo_test.go",{"C17":"owner_not_a_peer","C18":"peer_entry_expired_early"},"caught","","C17-m4"),
 ("C19","m1","route/zz_demo_c19_test.go",{"C19":"event_handled_more_than_once"},"caught","","C19-m3"),
 ("C36","m2","collect/demo_stop_inflight_decision_test.go",{"C36":"accepted_span_lost_at_shutdown"},"missed, then caught after strengthening","new fault: every worker is held at its next decision (tracer seam) some time before the shutdown and let go after Stop has been called, so the rest of a decision round happens during the shutdown; a lost span whose trace the decision cache remembers as kept (and with no span queued at the stop) is not attributed to the recorded finding","C36-m3"),
]
T5 = [
 # wave 5 (/tmp/mutout5): prompts asked for one interleaving-only and one fault-only change per property.
 # Not stored (repeats): C02 m2 (= C02-m1), C34 m2 (= C34-m2), C35 m1 (= C35-m2).
 ("C02","m1","collect/demo_m1_test.go",{"C01":"trace_decided_twice","C31":"dropped_decision_not_answered_dropped"},"caught (by C01 and C31; C02's own runs did not reach a second, different decision)","","C02-m3"),
 ("C05","m1","collect/demo_c05_m1_test.go",{"C05":"dry_run_kept_field_missing"},"caught","","C05-m3"),
 ("C05","m2","collect/demo_c05_m2_test.go",{"C05":"dry_run_span_not_forwarded","C02":"dry_run_span_not_forwarded"},"caught","","C05-m4"),
 ("C06","m1","collect/demo_c06m1_test.go",{"C06":"rule_reason"},"caught","","C06-m3"),
 ("C06","m2","collect/demo_c06m2_test.go",{"C06":"root_counts"},"caught","","C06-m4"),
 ("C30","m1","internal/health/demo_test.go",{"C30":"reporting_subsystem_reported_dead"},"missed, then caught after strengthening","new schedule: the Logger double given to Health runs a hook inside Ready (Health logs a state change in the middle of Ready) that starts an Unregister of the same subsystem on another goroutine","C30-m3"),
 ("C30","m2","internal/health/demo_test.go",{"C30":"silent_subsystem_not_reported_dead"},"caught","","C30-m4"),
 ("C32","m1","generics/setttl_race_demo_test.go",{"C32":"absent_before_expiry"},"missed, then caught after strengthening","new schedule: the clock given to the set/map runs a hook in the lookup's clock read (between finding an entry and judging it) that refreshes the same element on another goroutine; the lookup is preceded by time passing beyond the expiry with no query in between, so it finds an expired entry not yet cleaned away","C32-m3"),
 ("C32","m2","generics/mapttl_burst_demo_test.go",{"C32":"queries_disagree"},"missed, then caught after strengthening","bursts of up to 3000 entries that expire together","C32-m4"),
 ("C33","m1","metrics/demo_test.go",{"C33":"history_not_linearizable"},"caught","","C33-m3"),
 ("C33","m2","metrics/demo_test.go",{"C33":"history_not_linearizable"},"missed, then caught after strengthening","new fault: a child backend of the MultiMetrics (where Prometheus/OTel would be) panics in plan-chosen calls; a call that ended in a panic is tried both as having taken effect and as not","C33-m4"),
 ("C34","m1","agent/demo_m1_test.go",{"C34":"usage_lost"},"caught","","C34-m3"),
 ("C35","m2","route/demo_c35m2_test.go",{"C35":"data_race","C23":"accepted_event_not_accounted_once"},"missed, then caught after strengthening","clients now also send zstd-compressed bodies, some of which do not decode; some requests carry an environment key whose lookup answers only after a while, so that a handler is in progress (holding its body buffer) while other requests come and go - in the race runs and, with a functional oracle, in C23","C35-m3"),
]
T6 = [
 # wave 6 (/tmp/mutout6), same prompts as wave 5. Not stored (repeats): C01 m1 (= C02-m3), C01 m2 (= C01-m2), C03 m2 (= C02-m1),
 # C07 m1 (= C07-m3), C12 m1 (= C12-m2), C13 m1 (= C13-m1). Not stored (outside the statements): C04 m1 - two decisions for one
 # trace when relief switches on while the trace is buffered (the case C01 excludes); which of the two recorded rates a later span
 # must carry is not defined by C04.
 ("C03","m1","collect/demo_m1_test.go",{"C03":"tick_decides_wrong_number"},"missed, then caught after strengthening","workers are stalled in gaps of the traffic: one send tick fires meanwhile, waits in the ticker's channel and is judged when the worker handles it (a record made at that moment from the tracer's sendExpiredTracesInCache span); memory readings wait while a worker is stalled","C03-m3"),
 ("C04","m2","collect/demo_m2_test.go",{"C04":"sample_rate_product","C31":"kept_decision_wrong_rate_or_reason"},"caught","","C04-m3"),
 ("C07","m2","collect/demo_m2_test.go",{"C07":"ejected_kept_trace_not_forwarded","C02":"kept_span_not_forwarded"},"missed, then caught after strengthening","new hook aea4114 (capacity of the collector's outgoing queue replaceable in simulation builds) and plans in which a queue of a few traces is exactly full behind a stalled sender when the memory limit is exceeded","C07-m4"),
 ("C12","m2","collect/demo_reload_resize_test.go",{"C12":"identical_definitions_not_shared"},"missed, then caught after strengthening","reloads during which the workers' sent-cache Resize returns an error (zero capacity)","C12-m4"),
 ("C13","m2","sample/demo_c13m2_test.go",{"C13":"throughput_goal"},"missed, then caught after strengthening","the Peers double can make GetPeers fail for a while (samplers created or re-created meanwhile)","C13-m3"),
 ("C15","m1","collect/demo_m1_test.go",{"C15":"cluster_level_not_rms_of_recent_reports"},"missed, then caught after strengthening","new schedule: the clock given to StressRelief runs a hook in the recalculation's first clock read that delivers a peer report (on the subscriber's goroutine) right there","C15-m3"),
 ("C15","m2","collect/demo_m2_test.go",{"C15":"cluster_level_not_rms_of_recent_reports"},"missed, then caught after strengthening","new fault: stress messages that cannot be parsed, naming a peer","C15-m4"),
 ("C16","m1","route/demo_c16_m1_test.go",{"C16":"kept_stressed_span_not_delivered_exactly_once"},"missed, then caught after strengthening","new schedule: relief ends (mode reload + Recalc) from inside the tracer call at the start of the collector's stress path, i.e. after the router has read the stress state and while the span is still inside processEvent","C16-m5"),
 ("C16","m2","collect/cache/demo_c16_m2_test.go",{"C31":"dropped_decision_not_answered_dropped"},"caught (by C31; C16's runs do not fill the drop filter)","","C16-m6"),
]
T7 = [
 # wave 7 (/tmp/mutout7), same prompts as waves 5/6. Not stored (repeats): C31 m2 (= C16-m6), C36 m1 (= C36-m3), C36 m2 (= C36-m2).
 ("C17","m1","sharder/demo_m1_test.go",{"C17":"nodes_disagree_on_owner"},"missed, then caught after strengthening","new schedule: in the runs with a real sharder on real Redis peers the sharder reaches the peers through a double that lets another node's registration arrive at the moment the sharder subscribes to membership changes (inside its Start)","C17-m5"),
 ("C17","m2","sharder/demo_m2_test.go",{"C17":"nodes_disagree_on_owner"},"caught","","C17-m6"),
 ("C18","m1","generics/demo_test.go",{"C32":"deadlock_on_locks"},"missed, then caught after strengthening","C32: a refresh lands in any clock read of the listing queries (clock double); goroutines that wait for each other's locks forever make the run never end, which the orchestrator now reports as a deadlock violation with a replay (hang path extended from busy loops to lock cycles)","C18-m4"),
 ("C18","m2","internal/peer/demo_test.go",{"C18":"membership_not_converged"},"caught","","C18-m5"),
 ("C19","m1","route/demo_forward_alias_test.go",{"C19":"span_not_handled_exactly_once","C23":"accepted_event_not_accounted_once"},"caught","","C19-m4"),
 ("C19","m2","route/demo_cut_off_upload_test.go",{"C23":"success_but_events_discarded"},"missed, then caught after strengthening (by C23: C19's runs have no requests in progress for long)","C23: a request whose compressed body cannot be read to the end (or does not decode) is placed right before two overlapping requests; a replay of a plan known not to fail the same way every time accepts another violation of the same property","C19-m5"),
 ("C23","m1","route/demo_m1_test.go",{"C23":"accepted_but_discarded","C16":"unstressed_span_lost_when_relief_started"},"missed, then caught after strengthening","new schedule in the stress plans (which C23 now also runs): relief starts on a node from inside the router's owner lookup (Sharder double), after the router has seen the node unstressed; with a keep-everything sampler and a locally owned trace the span must reach Honeycomb once","C23-m5"),
 ("C23","m2","route/demo_m2_test.go",{"C23":"valid_event_rejected"},"caught","","C23-m6"),
 ("C26","m1","transmit/demo_m1_test.go",{"C26":"batch_over_max_batch_size"},"missed, then caught after strengthening","new schedule: the Metrics double given to the transmission lets a second producer enqueue for the same destination at the point where an event is counted as queued","C26-m5"),
 ("C26","m2","transmit/demo_m2_test.go",{"C26":"queued_items_not_zero"},"caught","","C26-m6"),
 ("C27","m1","config/reload_overlap_demo_test.go",{"C27":"newest_change_lost"},"caught","","C27-m3"),
 ("C27","m2","internal/configwatcher/reload_after_error_demo_test.go",{"C27":"acceptable_content_never_applied"},"missed, then caught after strengthening","liveness once changes stop: three reload intervals after the last operation the running config is what startup would accept from the files","C27-m4"),
 ("C31","m1","collect/cache/zz_demo_m1_test.go",{"C31":"dropped_decision_not_answered_dropped"},"caught","","C31-m5"),
]
T8 = [
 # wave 8 (/tmp/mutout8): m1 must need nothing but an unusual-but-legal configuration value, m2 a sequence of at least three steps.
 # Not stored (repeats): C01 m2 (= C31-m3), C02 m1 (= C01 m1 of this wave), C04 m1 (= C04-m2), C04 m2 (= C04-m1), C16 m2 (= C01-m2), C19 m2 (= C19-m4), C26 m1 (= C26-m2).
 ("C01","m1","collect/demo_m1_test.go",{"C02":"dry_run_span_not_forwarded","C05":"dry_run_span_not_forwarded"},"caught","","C01-m3"),
 ("C02","m2","collect/demo_m2_test.go",{"C16":"late_span_does_not_follow_recorded_decision"},"caught (by C16; C02's single-node runs have no stress relief)","","C02-m4"),
 ("C03","m1","collect/demo_c03m1_test.go",{"C03":"tick_decides_wrong_number"},"caught","","C03-m4"),
 ("C03","m2","collect/demo_c03m2_test.go",{"C03":"send_reason"},"missed, then caught after strengthening","the oracle took 'has a root' from the collector's own decision span, so it agreed with whatever the collector believed; it now takes it from the reference model (a root was processed into the live trace). New traffic: traces whose spans all arrive inside one tick interval, more of them than any span limit, the root anywhere among them","C03-m5"),
 ("C06","m1","collect/demo_c06m1_test.go",{"C06":"root_counts"},"caught","","C06-m5"),
 ("C06","m2","collect/demo_c06m2_test.go",{"C06":"rule_reason"},"missed, then caught after strengthening","new kind of plan (15% of C06's): one worker decides 4-12 traces under a rules-based sampler whose rules have different names, the reasons recurring in random order, then a late span arrives for each trace and must carry its own trace's reason","C06-m6"),
 ("C16","m1","collect/zz_demo_m1_test.go",{"C16":"late_span_does_not_follow_stress_decision"},"missed, then caught after strengthening","StressRelief.SamplingRate is now a parameter of the plan (1, 2, 3, 100) instead of the constant 2","C16-m7"),
 ("C19","m1","transmit/demo_c19_m1_test.go",{"C19":"span_not_handled_exactly_once","C26":"event_sent_to_wrong_destination","C23":"accepted_event_not_accounted_once"},"missed, then caught after strengthening","Network.HoneycombAPI (World B) and the events' API hosts (World C) are written with a trailing slash in a quarter / a fifth of the plans; the simulated Honeycomb only serves /1/batch/<dataset>","C19-m6"),
 ("C26","m2","transmit/demo_c26_m2_test.go",{"C26":"batch_dispatched_late"},"caught","","C26-m7"),
]
T9 = [
 # wave 9 (/tmp/mutout9), same prompts as wave 8 for eight other properties.
 # Not stored (repeats): C05 m1 (= C02-m1), C07 m1 (= C05-m4), C07 m2 (= C07-m1), C17 m2 (= C17-m2), C27 m1 (= C27-m2).
 ("C05","m2","collect/demo_m2_test.go",{"C05":"dry_run_kept_field_missing"},"missed, then caught after strengthening","World A reloads now tell the listeners the digests of the content in force, as the file-backed config does (MockConfig.Reload passes empty strings), so that reverting a change brings the earlier digest back; C05's plans switch dry run off and back on (the generator had a switch for this that nothing read)","C05-m5"),
 ("C12","m1","sample/demo_m1_test.go",{"C12":"different_definitions_share_state","C13":"throughput_goal"},"caught","","C12-m5"),
 ("C12","m2","collect/demo_m2_test.go",{"C12":"identical_definitions_not_shared","C13":"throughput_goal"},"missed, then caught after strengthening","new schedule: one worker is held at the start of a decision (tracer seam) while the main configuration changes twice and another worker decides a trace in between; the held worker then goes on and decides one more trace","C12-m6"),
 ("C13","m1","sample/demo_c13m1_test.go",{"C13":"throughput_goal","C12":"different_definitions_share_state"},"caught","","C13-m4"),
 ("C13","m2","sample/demo_c13m2_test.go",{"C13":"throughput_goal"},"caught","","C13-m5"),
 ("C17","m1","internal/peer/demo_m1_test.go",{"C17":"owner_not_a_peer","C18":"peer_entry_expired_early"},"caught","","C17-m7"),
 ("C23","m1","route/demo_c23_m1_test.go",{"C23":"error_status_but_events_processed"},"missed, then caught after strengthening","OTLP requests with one resource entry per span; EnvironmentCacheTTL 0 in two thirds of the plans (nothing is served from the cache, not even within one request); a lookup service of which every second answer is an error","C23-m7"),
 ("C23","m2","route/demo_c23_m2_test.go",{"C23":"refused_event_processed"},"missed, then caught after strengthening","two collector workers in some of the plans that stall worker 0: within one request some events meet a full queue and later ones a free one","C23-m8"),
 ("C27","m2","config/demo_m2_test.go",{"C27":"acceptable_change_not_applied"},"caught","","C27-m5"),
 ("C36","m1","internal/configwatcher/demo_test.go",{"C36":"shutdown_panicked"},"missed, then caught after strengthening (patch rebased onto fix 2819407, which the author's patch contained as its first half)","General.ConfigReloadInterval 0 in a third of the shutdown plans; a panic while the components are stopped is a violation of C36 (it was harness trouble: the panic happened on a goroutine of the harness and ended the process)","C36-m4"),
 ("C36","m2","internal/health/demo_test.go",{"C30":"reporting_subsystem_reported_dead"},"caught (by C30: the statement of C36 does not speak of readiness)","","C36-m5"),
]
T10 = [
 # wave 10 (/tmp/mutout10), same prompts as waves 8/9 for the remaining eight properties.
 # Not stored (repeats): C15 m2 (= C15-m2), C30 m1 (= C30-m1), C34 m2 (= C34-m1).
 ("C15","m1","collect/stress_relief_m1_demo_test.go",{"C15":"cluster_level_not_rms_of_recent_reports"},"missed, then caught after strengthening","RedisPeerManagement.ClusterName is set in a third of the plans (the simulated pubsub then prefixes topics as the Redis one does); the reference model was fed by deliveries to the node's subscription, so it agreed with a node that listens on the wrong topic: a message for a node that has no subscription on the topic it is meant to listen on now reaches the model all the same","C15-m5"),
 ("C18","m1","internal/peer/demo_m1_test.go",{"C18":"membership_not_converged","C17":"nodes_disagree_on_owner"},"missed, then caught after strengthening","RedisPeerManagement.ClusterName is set in a third of the plans","C18-m6"),
 ("C18","m2","internal/peer/demo_m2_test.go",{"C18":"membership_not_converged","C32":"queries_disagree"},"caught","","C18-m7"),
 ("C30","m2","internal/health/demo_test.go",{"C30":"ready_without_all_subsystems_ready"},"caught","","C30-m5"),
 ("C31","m1","collect/cache/demo_m1_test.go",{"C31":"kept_decision_wrong_rate_or_reason"},"missed, then caught after strengthening","recorded rates up to 2^32-1 (they had stopped at 1000)","C31-m6"),
 ("C31","m2","collect/cache/demo_m2_test.go",{"C31":"dropped_decision_not_answered_dropped"},"missed, then caught after strengthening","reloads change DroppedSize (the resize operation had always passed the same one), also between a drop record and the burst that rotates the filters; the model gives every filter generation the size that was configured when it was created","C31-m7"),
 ("C32","m1","generics/mapttl_zero_demo_test.go",{"C32":"queries_disagree"},"missed, then caught after strengthening","TTL 0 among the TTLs","C32-m5"),
 ("C32","m2","generics/setttl_seq_demo_test.go",{"C32":"queries_disagree"},"missed, then caught after strengthening","a fifth of the plans start with staggered expiries: three to five items added a fraction of the TTL apart, then the clock goes from one expiry to the next with every query asked at each stop","C32-m6"),
 ("C33","m1","metrics/demo_c33m1_test.go",{"C33":"history_not_linearizable"},"missed, then caught after strengthening","registrations of one name carry different descriptions and units","C33-m5"),
 ("C33","m2","metrics/demo_c33m2_test.go",{"C33":"history_not_linearizable"},"missed, then caught after strengthening","the name of a stored value may be registered too (as a gauge)","C33-m6"),
 ("C34","m1","agent/usage_toggle_demo_test.go",{"C34":"usage_lost"},"missed, then caught after strengthening","OpAMP.RecordUsage is switched off for a while and on again in a third of the plans, the counters growing meanwhile","C34-m4"),
 ("C35","m1","transmit/demo_c35_m1_test.go",{"C35":"data_race","C26":"request_body_not_decodable"},"caught","","C35-m4"),
 ("C35","m2","internal/health/demo_c35_m2_test.go",{"C35":"data_race"},"missed, then caught after strengthening","lifecycle sub-world: the subsystem reports once at start, runs may last longer than its timeout, and liveness/readiness probes arrive on goroutines of their own (three at a time), also right before the stop","C35-m5"),
]
if os.environ.get("WAVE") == "10":
    T = T10
if os.environ.get("WAVE") == "9":
    T = T9
if os.environ.get("WAVE") == "8":
    T = T8
if os.environ.get("WAVE") == "3":
    T = T3
if os.environ.get("WAVE") == "7":
    T = T7
if os.environ.get("WAVE") == "6":
    T = T6
if os.environ.get("WAVE") == "5":
    T = T5
if os.environ.get("WAVE") == "4":
    T = T4
for row in T:
    id_, m, dest, caught, first, strength = row[:6]
    stored = row[6] if len(row) > 6 else f"{id_}-{m}"
    src = f"{os.environ.get('MUTOUT','/tmp/mutout')}/{id_}/{m}"
    dst = f"/verif/seeded/{stored}"
    os.makedirs(dst, exist_ok=True)
    shutil.copy(f"{src}/patch.diff", f"{dst}/patch.diff")
    readme = open(f"{src}/README.md").read()
    open(f"{dst}/AUTHOR_README.md","w").write(readme)
    demos = [f for f in os.listdir(src) if f.endswith("_test.go")]
    demo = demos[0]
    demoname = os.path.basename(dest) + ".txt"
    shutil.copy(f"{src}/{demo}", f"{dst}/{demoname}")
    title = readme.strip().splitlines()[0].lstrip("# ").strip()
    title = re.sub(r"^C\d+\s*/\s*m\d\s*[—-]+\s*", "", title)
    mneed = re.search(r"(?im)^[-*\s]*\**\s*(condition needed|trigger|condition)[^:\n]*:\**\s*(.*(?:\n(?!\n).*)*)", readme)
    need = " ".join(mneed.group(2).split()) if mneed else ""
    ev = f"/tmp/evalout/{id_}-{m}.txt"
    meta = {
      "id": stored, "breaks_property": id_,
      "also_visible_to": [c for c in caught if c != id_],
      "summary": title, "needs_to_manifest": need[:600],
      "demonstration": {"file": demoname, "place_at": dest, "run": f"go test {'-race ' if id_=='C35' else ''}-count=1 -run <TestDemo...> ./{os.path.dirname(dest)}/"},
      "confirmed": {"how": f"tools/evalmut.sh {id_} {m} {dest} {' '.join(caught)} (scratch worktree of /repo HEAD: demo passes without the patch, patch applies and builds, demo fails with it, tests of the touched packages pass with it)",
                    "existing_tests_of_touched_packages_pass": True, "demo_fails_with_change_passes_without": True},
      "caught_by": caught, "first_wave_result": first,
    }
    if strength: meta["strengthening"] = strength
    json.dump(meta, open(f"{dst}/meta.json","w"), indent=1)
print("stored", len(T))
