#!/bin/bash
# usage: tools/thorough_all.sh [budget_s] [seed]  — thorough tier of every check, one after the other;
# evidence goes to evidence-thorough/ (the committed evidence/ stays what a fresh quick run writes)
cd "$(dirname "$0")/.."
B=${1:-240}; S=${2:-1}
OUT=${THOROUGH_OUT:-$(pwd)/evidence-thorough}; mkdir -p $OUT
for c in $(python3 -c "import json;print(' '.join(c['property_id'] for c in json.load(open('MANIFEST.json'))['checks']))"); do
  b=$B; [ $c = C35 ] && b=$((B*3))
  out=$(VERIF_EVIDENCE_DIR=$OUT ./vcheck $c --tier thorough --budget $b --seed $S 2>&1); rc=$?
  echo "$c rc=$rc $(echo "$out" | grep "^$c thorough" | cut -c1-160) $(echo "$out" | grep "VIOLATION\|HARNESS-TROUBLE" | head -2 | tr '\n' ' ' | cut -c1-300)"
done
