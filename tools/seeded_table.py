#!/usr/bin/env python3
"""Print the markdown table of DESIGN.md 10.6 from seeded/*/meta.json."""
import json, os, sys
V = os.path.join(os.path.dirname(os.path.abspath(__file__)), "..")
rows = []
for d in sorted(os.listdir(os.path.join(V, "seeded"))):
    m = json.load(open(os.path.join(V, "seeded", d, "meta.json")))
    caught = "; ".join(f"{c} `{i}`" for c, i in m["caught_by"].items())
    first = m.get("first_wave_result", "")
    s = m["summary"].replace("|", "/")
    rows.append(f"| {m['id']} | {s} | {caught} | {first} |")
print("| Change | What it does | Caught by (check, invariant) | First result |")
print("|---|---|---|---|")
print("\n".join(rows))
