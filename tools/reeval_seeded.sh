#!/bin/bash
# usage: tools/reeval_seeded.sh [seeded-id ...]   (default: all)
# Sensitivity regression: applies every stored seeded change to a scratch worktree of /repo HEAD and runs the
# checks its meta.json names in caught_by (quick tier). Prints CAUGHT/MISSED per (change, check). Leaves nothing behind.
set -u
cd "$(dirname "$0")/.."; V=$(pwd)
export GOFLAGS=-mod=mod GOPROXY=off GOSUMDB=off GOTOOLCHAIN=local
ids=("$@"); [ ${#ids[@]} -eq 0 ] && ids=($(ls seeded))
rc=0
# one worktree path for all changes: the Go build cache then only recompiles what a patch touches
WT=${REEVAL_WT:-/tmp/reeval-wt}
git -C /repo worktree remove --force $WT 2>/dev/null
git -C /repo worktree add -q $WT HEAD || { echo "cannot create worktree"; exit 2; }
trap 'git -C /repo worktree remove --force $WT' EXIT
for id in "${ids[@]}"; do
  git -C $WT checkout -q -- . && git -C $WT clean -qfd
  if ! git -C $WT apply $V/seeded/$id/patch.diff; then echo "$id: PATCH-DOES-NOT-APPLY"; rc=2; continue; fi
  for c in $(python3 -c "import json;print(' '.join(json.load(open('$V/seeded/$id/meta.json'))['caught_by']))"); do
    out=$(VERIF_REPO=$WT VERIF_EVIDENCE_DIR=${WT}-evidence ./vcheck $c 2>&1)
    again=""
    if ! echo "$out" | grep -q "^VIOLATION property=$c " && echo "$out" | grep -q "HARNESS-TROUBLE.*did not \(recur\|reproduce\)"; then
      # some seeded changes make refinery itself nondeterministic (a data race, memory shared between
      # goroutines): a violation seen once need not show again on the same plan. One more attempt.
      out=$(VERIF_REPO=$WT VERIF_EVIDENCE_DIR=${WT}-evidence ./vcheck $c 2>&1); again=" (second attempt; the first found a violation that did not recur on its plan)"
    fi
    if echo "$out" | grep -q "^VIOLATION property=$c "; then
      echo "$id $c CAUGHT$again $(echo "$out" | grep -m1 '^violation:' | cut -c1-140)"
    else
      echo "$id $c MISSED $(echo "$out" | grep -m1 'HARNESS-TROUBLE' | cut -c1-160)"; rc=1
    fi
  done
done
rm -rf ${WT}-evidence
exit $rc
