#!/bin/bash
# usage: tools/reeval_seeded.sh [seeded-id ...]   (default: all)
# Sensitivity regression: applies every stored seeded change to a scratch worktree of /repo HEAD and runs the
# checks its meta.json names in caught_by (quick tier). Prints CAUGHT/MISSED per (change, check). Leaves nothing behind.
set -u
cd "$(dirname "$0")/.."; V=$(pwd)
export GOFLAGS=-mod=mod GOPROXY=off GOSUMDB=off GOTOOLCHAIN=local
ids=("$@"); [ ${#ids[@]} -eq 0 ] && ids=($(ls seeded))
rc=0
for id in "${ids[@]}"; do
  WT=/tmp/reeval-$$-$id
  git -C /repo worktree remove --force $WT 2>/dev/null
  git -C /repo worktree add -q $WT HEAD || { echo "$id: cannot create worktree"; rc=2; continue; }
  if ! git -C $WT apply $V/seeded/$id/patch.diff; then echo "$id: PATCH-DOES-NOT-APPLY"; rc=2; git -C /repo worktree remove --force $WT; continue; fi
  for c in $(python3 -c "import json;print(' '.join(json.load(open('$V/seeded/$id/meta.json'))['caught_by']))"); do
    out=$(VERIF_REPO=$WT VERIF_EVIDENCE_DIR=/tmp/reeval-evidence ./vcheck $c 2>&1)
    if echo "$out" | grep -q "^VIOLATION property=$c "; then
      echo "$id $c CAUGHT $(echo "$out" | grep -m1 '^violation:' | cut -c1-140)"
    else
      echo "$id $c MISSED $(echo "$out" | grep -m1 'HARNESS-TROUBLE' | cut -c1-160)"; rc=1
    fi
  done
  git -C /repo worktree remove --force $WT
done
rm -rf /tmp/reeval-evidence
exit $rc
