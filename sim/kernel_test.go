//go:build verif

// Package verifsim is the deterministic-simulation harness for refinery.
// It is compiled INTO the refinery module through -overlay (see /verif/vcheck),
// so it can reach internal/ packages; nothing here is written to /repo.
//
// kernel_test.go: PRNG, stable hashing, plans, outcomes, the run loop,
// minimisation, replay files, the real-time watchdog.
package verifsim

import (
	"encoding/json"
	"fmt"
	"hash/fnv"
	"math/rand"
	"os"
	"path/filepath"
	"runtime"
	"sort"
	"strconv"
	"strings"
	"sync"
	"sync/atomic"
	"testing"
	"testing/synctest"
	"time"
)

// ---------------------------------------------------------------------------
// PRNG: splitmix64. One integer decides everything.

type Rng struct{ s uint64 }

func NewRng(seed uint64) *Rng { return &Rng{s: seed} }

func mix64(z uint64) uint64 {
	z += 0x9e3779b97f4a7c15
	z = (z ^ (z >> 30)) * 0xbf58476d1ce4e5b9
	z = (z ^ (z >> 27)) * 0x94d049bb133111eb
	return z ^ (z >> 31)
}

func (r *Rng) U64() uint64 {
	r.s += 0x9e3779b97f4a7c15
	z := r.s
	z = (z ^ (z >> 30)) * 0xbf58476d1ce4e5b9
	z = (z ^ (z >> 27)) * 0x94d049bb133111eb
	return z ^ (z >> 31)
}
func (r *Rng) Intn(n int) int {
	if n <= 0 {
		return 0
	}
	return int(r.U64() % uint64(n))
}
func (r *Rng) I64n(n int64) int64 {
	if n <= 0 {
		return 0
	}
	return int64(r.U64() % uint64(n))
}
func (r *Rng) Range(lo, hi int) int { // inclusive
	if hi <= lo {
		return lo
	}
	return lo + r.Intn(hi-lo+1)
}
func (r *Rng) Float() float64      { return float64(r.U64()>>11) / float64(1<<53) }
func (r *Rng) Bool(p float64) bool { return r.Float() < p }
func (r *Rng) Fork() *Rng          { return NewRng(r.U64()) }

func PickOf[T any](r *Rng, xs ...T) T { return xs[r.Intn(len(xs))] }

// H is a stable hash of its parts; used for identity-keyed decisions (tie
// breaking, fault decisions) so that removing one operation from a plan does
// not perturb the decisions taken for the others.
func H(parts ...any) uint64 {
	h := fnv.New64a()
	for _, p := range parts {
		fmt.Fprint(h, p)
		h.Write([]byte{0})
	}
	return mix64(h.Sum64())
}

// HF maps a stable hash to [0,1).
func HF(parts ...any) float64 { return float64(H(parts...)>>11) / float64(1<<53) }

// ---------------------------------------------------------------------------
// Plans

// Op is one planned stimulus or fault. The meaning of the generic fields is
// world specific. ID is a stable identity within the plan (never renumbered by
// the shrinker).
type Op struct {
	ID int    `json:"id"`
	At int64  `json:"at"` // simulated microseconds since run start
	K  string `json:"k"`
	I  int64  `json:"i,omitempty"`
	J  int64  `json:"j,omitempty"`
	N  int64  `json:"n,omitempty"`
	M  int64  `json:"m,omitempty"`
	S  string `json:"s,omitempty"`
	T  string `json:"t,omitempty"`
	B  bool   `json:"b,omitempty"`
}

type Plan struct {
	Check string            `json:"check"`
	Seed  uint64            `json:"seed"` // decides tie-breaks and identity-keyed faults; constant under shrinking
	N     map[string]int64  `json:"n"`    // numeric knobs
	S     map[string]string `json:"s"`    // string knobs
	Ops   []Op              `json:"ops"`
}

func NewPlan(check string, seed uint64) *Plan {
	return &Plan{Check: check, Seed: seed, N: map[string]int64{}, S: map[string]string{}}
}
func (p *Plan) Add(op Op) *Op {
	op.ID = len(p.Ops) + 1
	p.Ops = append(p.Ops, op)
	return &p.Ops[len(p.Ops)-1]
}
func (p *Plan) Clone() *Plan {
	q := &Plan{Check: p.Check, Seed: p.Seed, N: map[string]int64{}, S: map[string]string{}}
	for k, v := range p.N {
		q.N[k] = v
	}
	for k, v := range p.S {
		q.S[k] = v
	}
	q.Ops = append([]Op(nil), p.Ops...)
	return q
}
func (p *Plan) Hash() uint64 {
	b, _ := json.Marshal(p)
	return H(string(b))
}
func (p *Plan) Get(k string, def int64) int64 {
	if v, ok := p.N[k]; ok {
		return v
	}
	return def
}
func (p *Plan) On(k string) bool { return p.N[k] != 0 }
func (p *Plan) SortOps() {
	sort.SliceStable(p.Ops, func(i, j int) bool { return p.Ops[i].At < p.Ops[j].At })
}

// ---------------------------------------------------------------------------
// Outcomes

type Violation struct {
	Prop      string `json:"prop"`
	Invariant string `json:"invariant"`
	Site      string `json:"site"`
	Detail    string `json:"detail"`
}

func (v Violation) Class() string { return v.Prop + "/" + v.Invariant + "/" + v.Site }

type Outcome struct {
	mu         sync.Mutex // Probe/Fault/Violate/Logf may be called from refinery goroutines
	Violations []Violation
	Probes     map[string]int
	Faults     map[string]int
	Steps      int
	SimMicros  int64
	Sig        uint64 // canonical schedule signature
	Log        []string
	Harness    string // non-empty: harness trouble, not a verdict
}

func NewOutcome() *Outcome {
	return &Outcome{Probes: map[string]int{}, Faults: map[string]int{}}
}
func (o *Outcome) Violate(prop, inv, site, format string, a ...any) {
	o.mu.Lock()
	defer o.mu.Unlock()
	// keep the first of each class only
	c := prop + "/" + inv + "/" + site
	for _, v := range o.Violations {
		if v.Class() == c {
			return
		}
	}
	o.Violations = append(o.Violations, Violation{prop, inv, site, fmt.Sprintf(format, a...)})
}
func (o *Outcome) Probe(name string)         { o.mu.Lock(); o.Probes[name]++; o.mu.Unlock() }
func (o *Outcome) ProbeN(name string, n int) { o.mu.Lock(); o.Probes[name] += n; o.mu.Unlock() }
func (o *Outcome) Fault(name string)         { o.mu.Lock(); o.Faults[name]++; o.mu.Unlock() }
func (o *Outcome) Logf(format string, a ...any) {
	o.mu.Lock()
	o.Log = append(o.Log, fmt.Sprintf(format, a...))
	o.mu.Unlock()
}
func (o *Outcome) Step(kind string, target any) {
	o.Steps++
	o.Sig = mix64(o.Sig ^ H(kind, target))
	if stepLog {
		o.Log = append(o.Log, fmt.Sprintf("STEP %d t=%v %s %v", o.Steps, time.Now().UnixNano()%1_000_000_000_000, kind, target))
	}
}

// stepLog (VERIF_STEPLOG=1): every delivered stimulus goes into the run's log;
// for hunting down a divergence between two executions of one plan.
var stepLog = os.Getenv("VERIF_STEPLOG") != ""

// ---------------------------------------------------------------------------
// Check registry

type Check struct {
	ID    string
	World string
	// Gen builds the plan for one run. tier is "quick" or "thorough".
	Gen func(r *Rng, tier string, p *Plan)
	// Run executes the plan inside a fresh bubble and evaluates every oracle.
	Run func(t *testing.T, p *Plan) *Outcome
	// Simplify yields world-specific smaller variants of a plan (beyond
	// dropping ops, which the kernel does itself).
	Simplify func(p *Plan) []*Plan
	// Probes that make a run "non-trivial" for this property.
	OwnProbes []string
	// Real and stubbed components, for the evidence file.
	Real, Stub []string
	// NoBubble: Run does not use synctest (real files etc.).
	RaceMode bool
}

var registry = map[string]*Check{}

func Register(c *Check) { registry[c.ID] = c }

// ---------------------------------------------------------------------------
// Bubble runner with panic capture

// InBubble runs f inside a synctest bubble. A panic on the bubble's root
// goroutine (including the end-of-bubble deadlock panic) is returned as text.
func InBubble(t *testing.T, f func()) (panicText string) {
	// synctest.Test calls t.FailNow() when the inner test was marked failed
	// (which the race detector does on a report); FailNow ends the calling
	// goroutine, so the bubble is entered from a goroutine of its own and the
	// caller just waits for it.
	done := make(chan struct{})
	go func() {
		defer close(done)
		defer func() {
			if r := recover(); r != nil {
				buf := make([]byte, 1<<20)
				n := runtime.Stack(buf, true)
				// keep only the goroutines that belong to a bubble
				var keep []string
				for _, g := range strings.Split(string(buf[:n]), "\n\n") {
					if strings.Contains(g, "synctest bubble") {
						keep = append(keep, g)
					}
				}
				panicText = fmt.Sprintf("%v\n%s", r, strings.Join(keep, "\n\n"))
			}
		}()
		synctest.Test(t, func(t *testing.T) {
			defer func() {
				if r := recover(); r != nil {
					buf := make([]byte, 1<<16)
					n := runtime.Stack(buf, false)
					panicText = fmt.Sprintf("%v\n%s", r, buf[:n])
				}
			}()
			f()
		})
	}()
	<-done
	return
}

// ---------------------------------------------------------------------------
// Known findings

type Known struct {
	Property    string `json:"property"`
	Invariant   string `json:"invariant"`
	Site        string `json:"site"`
	Description string `json:"description"`
}

type knownFile struct {
	Known []Known  `json:"known"`
	Fixed []string `json:"fixed"`
}

func loadKnown(path string) []Known {
	if path == "" {
		return nil
	}
	b, err := os.ReadFile(path)
	if err != nil {
		return nil
	}
	var kf knownFile
	if err := json.Unmarshal(b, &kf); err != nil {
		fmt.Fprintf(os.Stderr, "HARNESS: cannot parse known findings: %v\n", err)
		os.Exit(2)
	}
	return kf.Known
}

func isKnown(known []Known, v Violation) bool {
	for _, k := range known {
		if k.Property == v.Prop && k.Invariant == v.Invariant && k.Site == v.Site {
			return true
		}
	}
	return false
}

// ---------------------------------------------------------------------------
// Results written for the orchestrator

type ReplayFile struct {
	Check    string    `json:"check"`
	BaseSeed int64     `json:"base_seed"`
	RunIndex int64     `json:"run_index"`
	Expect   Violation `json:"expect"`
	Plan     *Plan     `json:"plan"`
	OrigOps  int       `json:"orig_ops"`
	Log      []string  `json:"log"`
	// Tries > 1: the violation did not recur on every execution of this plan,
	// because the program under test itself makes a choice the simulator does not
	// own (Go's select among several ready cases, map iteration order); a replay
	// executes the plan up to Tries times
	Tries int `json:"tries,omitempty"`
}

type Summary struct {
	StoppedEarly string         `json:"stopped_early,omitempty"`
	Check        string         `json:"check"`
	Tier         string         `json:"tier"`
	BaseSeed     int64          `json:"base_seed"`
	Runs         int            `json:"runs"`
	RunSeeds     []uint64       `json:"run_seeds_sample"`
	Steps        int            `json:"steps"`
	SimMicros    int64          `json:"sim_micros"`
	WallS        float64        `json:"wall_s"`
	Probes       map[string]int `json:"probes"`
	ProbeRuns    map[string]int `json:"probe_runs"`
	Faults       map[string]int `json:"faults"`
	Sigs         []uint64       `json:"sigs"`
	Nontrivial   []uint64       `json:"nontrivial_plan_hashes"`
	KnownHits    map[string]int `json:"known_hits"`
	Samples      []*Plan        `json:"samples"`
	Violation    *Violation     `json:"violation,omitempty"`
	Replay       string         `json:"replay,omitempty"`
	Harness      string         `json:"harness,omitempty"`
	ShrinkRuns   int            `json:"shrink_runs"`
	Real         []string       `json:"real"`
	Stub         []string       `json:"stub"`
	OtherProps   map[string]int `json:"other_prop_violations"`
}

func envInt(name string, def int64) int64 {
	if v := os.Getenv(name); v != "" {
		n, err := strconv.ParseInt(v, 10, 64)
		if err == nil {
			return n
		}
	}
	return def
}

// watchdog: real time, outside any bubble.
var wdBeat atomic.Int64
var wdWhat atomic.Value

func startWatchdog(limit time.Duration, outPath string) {
	// beat() is called from inside bubbles, where time.Now() is the fake
	// clock: progress is therefore a counter, and only this goroutine (outside
	// any bubble) reads the real clock.
	go func() {
		last := wdBeat.Load()
		since := time.Now()
		for {
			time.Sleep(500 * time.Millisecond)
			if cur := wdBeat.Load(); cur != last {
				last, since = cur, time.Now()
				continue
			}
			if what, _ := wdWhat.Load().(string); what == "idle" {
				since = time.Now()
				continue
			}
			if time.Since(since) > limit {
				buf := make([]byte, 4<<20)
				n := runtime.Stack(buf, true)
				what, _ := wdWhat.Load().(string)
				fmt.Fprintf(os.Stderr, "WATCHDOG: no progress for %v during %s\n%s\n", limit, what, buf[:n])
				if outPath != "" {
					_ = os.WriteFile(outPath+".hang", []byte(what+"\n"+string(buf[:n])), 0o644)
				}
				os.Exit(3)
			}
		}
	}()
}
func beat(what string) {
	wdBeat.Add(1)
	wdWhat.Store(what)
}

func runOnce(t *testing.T, c *Check, p *Plan) *Outcome {
	beat(fmt.Sprintf("check=%s planseed=%d ops=%d", c.ID, p.Seed, len(p.Ops)))
	if cur := os.Getenv("VERIF_SAVE_CURRENT"); cur != "" {
		// so that a run that never comes back (busy loop) can still be replayed
		b, _ := json.Marshal(p)
		_ = os.WriteFile(cur, b, 0o644)
	}
	// the process-global math/rand is a source of nondeterminism the samplers
	// draw from: pin it per run (needs GODEBUG=randseednop=0).
	rand.Seed(int64(p.Seed))
	out := c.Run(t, p)
	beat("idle")
	// Goroutines left over at the end of a run are harness trouble when nothing
	// else is wrong; when the run already shows a violation of this property they
	// are its consequence (e.g. a sampler instance that was lost, and so never
	// stopped), and the violation is what gets reported.
	if out.Harness != "" && strings.Contains(out.Harness, "blocked goroutines remain") {
		for _, v := range out.Violations {
			if v.Prop == c.ID {
				out.Logf("note: goroutines were left over at the end of this run")
				out.Harness = ""
				break
			}
		}
	}
	return out
}

func hasClass(out *Outcome, cls string) *Violation {
	for i := range out.Violations {
		if out.Violations[i].Class() == cls {
			return &out.Violations[i]
		}
	}
	return nil
}

// shrink minimises p while the same violation class persists.
func shrink(t *testing.T, c *Check, p *Plan, cls string, budget time.Duration) (*Plan, int) {
	start := time.Now()
	runs := 0
	try := func(q *Plan) bool {
		if time.Since(start) > budget {
			return false
		}
		runs++
		out := runOnce(t, c, q)
		return out.Harness == "" && hasClass(out, cls) != nil
	}
	cur := p
	improved := true
	for improved && time.Since(start) < budget {
		improved = false
		// 1. drop chunks of ops (ddmin style)
		for chunk := len(cur.Ops) / 2; chunk >= 1; chunk /= 2 {
			for i := 0; i+chunk <= len(cur.Ops); {
				q := cur.Clone()
				q.Ops = append(append([]Op(nil), cur.Ops[:i]...), cur.Ops[i+chunk:]...)
				if try(q) {
					cur = q
					improved = true
				} else {
					i += chunk
				}
			}
		}
		// 2. world-specific simplifications
		if c.Simplify != nil {
			for again := true; again; {
				again = false
				for _, q := range c.Simplify(cur) {
					if q.Hash() == cur.Hash() {
						continue
					}
					if try(q) {
						cur = q
						improved = true
						again = true
						break
					}
				}
				if time.Since(start) > budget {
					break
				}
			}
		}
	}
	return cur, runs
}

// TestSim is the single entry point; everything is selected by environment.
func TestSim(t *testing.T) {
	id := os.Getenv("VERIF_CHECK")
	c := registry[id]
	if c == nil {
		ids := []string{}
		for k := range registry {
			ids = append(ids, k)
		}
		sort.Strings(ids)
		t.Fatalf("HARNESS: unknown VERIF_CHECK=%q (have %v)", id, ids)
	}
	tier := os.Getenv("VERIF_TIER")
	if tier == "" {
		tier = "quick"
	}
	outPath := os.Getenv("VERIF_OUT")
	known := loadKnown(os.Getenv("VERIF_KNOWN"))
	wd := time.Duration(envInt("VERIF_WATCHDOG_S", 60)) * time.Second
	startWatchdog(wd, outPath)

	if rp := os.Getenv("VERIF_REPLAY"); rp != "" {
		replay(t, c, rp)
		return
	}

	base := envInt("VERIF_SEED", 1)
	offset := envInt("VERIF_OFFSET", 0)
	stride := envInt("VERIF_STRIDE", 1)
	count := envInt("VERIF_COUNT", 100)
	budget := time.Duration(envInt("VERIF_BUDGET_S", 0)) * time.Second
	dumpDir := os.Getenv("VERIF_DUMPLOG")
	replayDir := os.Getenv("VERIF_REPLAY_DIR")
	if replayDir == "" {
		replayDir = "."
	}

	sum := &Summary{Check: id, Tier: tier, BaseSeed: base, Probes: map[string]int{}, ProbeRuns: map[string]int{},
		Faults: map[string]int{}, KnownHits: map[string]int{}, OtherProps: map[string]int{}, Real: c.Real, Stub: c.Stub}
	sigs := map[uint64]bool{}
	nontriv := map[uint64]bool{}
	start := time.Now()
	own := map[string]bool{}
	for _, p := range c.OwnProbes {
		own[p] = true
	}

	maxHeap := uint64(envInt("VERIF_MAX_HEAP_MB", 3000)) << 20
	for k := int64(0); k < count; k++ {
		if budget > 0 && time.Since(start) > budget {
			break
		}
		if k%16 == 15 {
			// the sandbox has no memory limit: a worker whose heap keeps growing
			// stops taking plans (its summary says how many it ran)
			var ms runtime.MemStats
			runtime.ReadMemStats(&ms)
			if ms.HeapInuse > maxHeap {
				runtime.GC()
				runtime.ReadMemStats(&ms)
				if ms.HeapInuse > maxHeap {
					sum.StoppedEarly = fmt.Sprintf("heap in use %d MB after %d runs", ms.HeapInuse>>20, sum.Runs)
					break
				}
			}
		}
		idx := offset + k*stride
		seed := mix64(uint64(base)*0x9e3779b97f4a7c15 ^ mix64(uint64(idx)+0x51ed270b))
		plan := NewPlan(id, seed)
		c.Gen(NewRng(seed), tier, plan)
		out := runOnce(t, c, plan)
		sum.Runs++
		if len(sum.RunSeeds) < 8 {
			sum.RunSeeds = append(sum.RunSeeds, seed)
		}
		if len(sum.Samples) < 2 {
			sum.Samples = append(sum.Samples, plan)
		}
		if dumpDir != "" {
			_ = os.MkdirAll(dumpDir, 0o755)
			pj, _ := json.Marshal(plan)
			lines := append([]string{fmt.Sprintf("sig=%d steps=%d", out.Sig, out.Steps), "PLAN " + string(pj)}, out.Log...)
			for _, v := range out.Violations {
				lines = append(lines, "VIOL "+v.Class()+" "+v.Detail)
			}
			_ = os.WriteFile(filepath.Join(dumpDir, fmt.Sprintf("%d.log", idx)), []byte(strings.Join(lines, "\n")+"\n"), 0o644)
		}
		if out.Harness != "" {
			sum.Harness = fmt.Sprintf("run index %d seed %d: %s", idx, seed, out.Harness)
			break
		}
		sum.Steps += out.Steps
		sum.SimMicros += out.SimMicros
		sigs[out.Sig] = true
		isNT := false
		for p, n := range out.Probes {
			sum.Probes[p] += n
			if n > 0 {
				sum.ProbeRuns[p]++
				if own[p] {
					isNT = true
				}
			}
		}
		if isNT || len(own) == 0 {
			nontriv[plan.Hash()] = true
		}
		for f, n := range out.Faults {
			sum.Faults[f] += n
		}
		var hit *Violation
		for i := range out.Violations {
			v := out.Violations[i]
			if v.Prop != id {
				sum.OtherProps[v.Class()]++
				continue
			}
			if isKnown(known, v) {
				sum.KnownHits[v.Class()]++
				continue
			}
			if hit == nil {
				hit = &out.Violations[i]
			}
		}
		if hit != nil {
			cls := hit.Class()
			sb := time.Duration(envInt("VERIF_SHRINK_S", 60)) * time.Second
			var min *Plan
			var fin *Outcome
			var v *Violation
			if c.RaceMode {
				// the race detector reports a given race once per process, so the
				// plan can neither be re-run nor minimised here; the orchestrator
				// replays it in fresh processes
				min, fin, v = plan, out, hit
			} else {
				var n int
				min, n = shrink(t, c, plan, cls, sb)
				sum.ShrinkRuns = n
				fin = runOnce(t, c, min)
				v = hasClass(fin, cls)
			}
			if v == nil {
				// could not re-establish on the minimised plan; fall back to the original
				min = plan
				fin = runOnce(t, c, min)
				v = hasClass(fin, cls)
			}
			tries := 0
			if v == nil && !c.RaceMode {
				// the same plan, executed again, did not fail: either the harness is
				// not deterministic or the program makes a random choice of its own
				for k := 0; k < 16 && v == nil; k++ {
					fin = runOnce(t, c, min)
					v = hasClass(fin, cls)
				}
				tries = 40
			}
			if v == nil {
				sum.Harness = fmt.Sprintf("violation %s at run index %d seed %d did not recur in 17 re-executions (nondeterminism in harness)", cls, idx, seed)
				break
			}
			rf := &ReplayFile{Check: id, BaseSeed: base, RunIndex: idx, Expect: *v, Plan: min, OrigOps: len(plan.Ops), Log: fin.Log, Tries: tries}
			b, _ := json.MarshalIndent(rf, "", " ")
			path := filepath.Join(replayDir, fmt.Sprintf("%s-%d-%d.json", id, base, idx))
			_ = os.MkdirAll(replayDir, 0o755)
			if err := os.WriteFile(path, b, 0o644); err != nil {
				sum.Harness = "cannot write replay: " + err.Error()
				break
			}
			sum.Violation = v
			sum.Replay = path
			break
		}
	}
	sum.WallS = time.Since(start).Seconds()
	const capList = 200000 // bound the summary size; the orchestrator then reports a lower bound
	for s := range sigs {
		if len(sum.Sigs) >= capList {
			break
		}
		sum.Sigs = append(sum.Sigs, s)
	}
	sort.Slice(sum.Sigs, func(i, j int) bool { return sum.Sigs[i] < sum.Sigs[j] })
	for s := range nontriv {
		if len(sum.Nontrivial) >= capList {
			break
		}
		sum.Nontrivial = append(sum.Nontrivial, s)
	}
	sort.Slice(sum.Nontrivial, func(i, j int) bool { return sum.Nontrivial[i] < sum.Nontrivial[j] })
	b, _ := json.Marshal(sum)
	if outPath != "" {
		if err := os.WriteFile(outPath, b, 0o644); err != nil {
			t.Fatalf("HARNESS: cannot write %s: %v", outPath, err)
		}
	} else {
		fmt.Println(string(b))
	}
}

func replay(t *testing.T, c *Check, path string) {
	b, err := os.ReadFile(path)
	if err != nil {
		t.Fatalf("HARNESS: %v", err)
	}
	var rf ReplayFile
	if err := json.Unmarshal(b, &rf); err != nil {
		t.Fatalf("HARNESS: %v", err)
	}
	tries := int(envInt("VERIF_REPLAY_TRIES", 1))
	if rf.Tries > tries {
		tries = rf.Tries
	}
	for i := 0; i < tries; i++ {
		out := runOnce(t, c, rf.Plan)
		if out.Harness != "" {
			fmt.Printf("REPLAY-HARNESS %s\n", out.Harness)
			continue
		}
		if v := hasClass(out, rf.Expect.Class()); v != nil {
			fmt.Printf("REPLAY-REPRODUCED property=%s invariant=%s site=%s attempt=%d\n  %s\n", v.Prop, v.Invariant, v.Site, i+1, v.Detail)
			return
		}
		for _, v := range out.Violations {
			if rf.Tries > 1 && v.Prop == rf.Expect.Prop {
				// the plan is known not to fail the same way every time (the program
				// under test makes choices the simulator does not own): another
				// violation of the same property is the same finding showing differently
				fmt.Printf("REPLAY-REPRODUCED property=%s invariant=%s site=%s attempt=%d (recorded as %s)\n  %s\n", v.Prop, v.Invariant, v.Site, i+1, rf.Expect.Class(), v.Detail)
				return
			}
			fmt.Printf("REPLAY-OTHER %s %s\n", v.Class(), v.Detail)
		}
	}
	fmt.Printf("REPLAY-NOT-REPRODUCED expected=%s\n", rf.Expect.Class())
}

// clusterPrefix: the plan's RedisPeerManagement.ClusterName ("" in most plans).
func clusterPrefix(p *Plan) string {
	if p.Get("cluster_name", 0) == 1 {
		return "prod"
	}
	return ""
}
