//go:build verif

package verifsim

import (
	"fmt"
	"sort"
	"strings"
	"testing"
	"time"

	"go.opentelemetry.io/otel/attribute"

	"github.com/honeycombio/refinery/config"
	"github.com/honeycombio/refinery/sharder"
)

// C16: stress-relief decisions are deterministic, remembered and delivered intact.
// World B; relief is switched on and off per node through a mode reload (the
// real StressRelief picks it up at its next Recalc tick).

func init() {
	Register(&Check{ID: "C16", World: "B/cluster", Gen: genStressB, Run: runStressB, Real: bReal, Stub: bStub,
		OwnProbes: []string{"stressed_span_kept", "stressed_span_dropped", "stressed_on_non_owner_kept", "late_span_after_relief_on_owner", "probe_sent_to_owner", "both_entry_and_owner_stressed", "batch_waited_for_its_sender", "relief_ended_while_span_in_router", "relief_started_while_span_in_router"}})
}

func genStressB(r *Rng, tier string, p *Plan) {
	nodes := PickOf(r, 1, 2, 2, 3, 4)
	p.N["nodes"] = int64(nodes)
	p.N["workers"] = int64(PickOf(r, 1, 2))
	p.N["max_batch"] = 50
	p.N["batch_timeout_us"] = PickOf(r, int64(20_000), 50_000, 100_000)
	// traces decided by the ordinary sampler before any stress begins; their
	// late spans arrive at the owner while it is stressed (C04: recorded rate)
	nPre := r.Range(0, 4)
	p.N["pre"] = int64(nPre)
	p.N["sampler_rate"] = int64(PickOf(r, 1, 2, 2, 3))
	for t := 0; t < nPre; t++ {
		p.Add(Op{K: "ev", At: int64(10_000 + 5_000*t), I: -1, J: int64(100 + t), N: int64(1000 + t), S: "json", T: "batch", M: 0})
	}
	if nPre == 0 && r.Bool(0.2) {
		// before any relief: a span whose node switches relief on while the span is
		// inside the router (keep-everything sampler, so its fate is known)
		p.N["sampler_rate"] = 1
		p.Add(Op{K: "ev", At: int64(100_000 + r.Intn(700)*1000), I: int64(r.Intn(nodes)), J: 90, N: 900, S: PickOf(r, "json", "msgpack"), T: "batch|relief_starts", M: int64(r.Intn(4))})
	}
	// which nodes get stressed, and when
	now := int64(900_000)
	var stressed []int
	for i := 0; i < nodes; i++ {
		if nPre > 0 || r.Bool(0.6) || (i == nodes-1 && len(stressed) == 0) {
			p.Add(Op{K: "stress", At: now, I: int64(i), N: 1})
			stressed = append(stressed, i)
		}
	}
	now += 400_000
	nTraces := r.Range(2, 10)
	if tier == "thorough" {
		nTraces = r.Range(2, 30)
	}
	mk := 0
	endsDuring := false
	startsDuring := false
	for t := 0; t < nTraces; t++ {
		nsp := r.Range(1, 3)
		for s := 0; s < nsp; s++ {
			now += PickOf(r, int64(0), 1000, 10_000, 30_000)
			mk++
			entry := stressed[r.Intn(len(stressed))]
			if r.Bool(0.15) {
				entry = r.Intn(nodes)
			}
			ev := Op{K: "ev", At: now, I: int64(entry), J: int64(t), N: int64(mk), S: PickOf(r, "json", "msgpack"), T: "batch", M: int64(r.Intn(4))}
			if !startsDuring && r.Bool(0.05) {
				// arrives at a node that is not (or no longer) stressed; relief starts on
				// that node while this very span is inside the router (after the router
				// has seen the node unstressed)
				ev.T = "batch|relief_starts"
				ev.I = int64(r.Intn(nodes))
				startsDuring = true
				if nPre == 0 {
					p.N["sampler_rate"] = 1 // keep everything: the span's fate is then known
				}
			} else if !endsDuring && r.Bool(0.06) {
				// relief on the entry node ends while this very span is being handled
				// (after the router has seen the node stressed)
				ev.T = "batch|relief_ends"
				endsDuring = true
			}
			p.Add(ev)
		}
	}
	if r.Bool(0.3) {
		// the transmissions' senders are held up for part of the stressed traffic:
		// batches taken off the pending list wait to be marshalled while further
		// kept spans are enqueued for the same destination
		at := 1_300_000 + r.I64n(max(now-1_300_000, 1))
		p.Add(Op{K: "park_send", At: at})
		p.Add(Op{K: "release_send", At: at + PickOf(r, p.N["batch_timeout_us"], 2*p.N["batch_timeout_us"], 5*p.N["batch_timeout_us"])})
	}
	for t := 0; t < nPre; t++ {
		now += 20_000
		p.Add(Op{K: "ev", At: now, I: -1, J: int64(100 + t), N: int64(2000 + t), S: "json", T: "batch", M: 1, B: true})
	}
	now += 600_000
	if r.Bool(0.7) {
		for _, i := range stressed {
			p.Add(Op{K: "stress", At: now, I: int64(i), N: 0})
		}
		now += 900_000
		// late spans after relief has ended
		for t := 0; t < nTraces; t++ {
			if r.Bool(0.5) {
				now += PickOf(r, int64(0), 1000, 50_000)
				mk++
				p.Add(Op{K: "ev", At: now, I: int64(r.Intn(nodes)), J: int64(t), N: int64(mk), S: "json", T: "batch", B: true})
			}
		}
	}
	// the rate of the stress rule itself: 1 keeps every trace (legal), the shipped
	// default is 100
	p.N["stress_rate"] = PickOf(r, int64(2), 2, 1, 3, 100)
	p.SortOps()
}

type stressEv struct {
	op                  Op
	ev                  *bEvent
	req                 *bRequest
	entry, owner        int
	entryStressed       bool
	late                bool
	firstSeenStress     bool // its trace was first seen while the entry node was stressed
	reliefStartedDuring bool // relief started on the entry node while this span was inside the router
}

// hookSharder is what the routers get as Sharder in the stress runs: the real
// sharder, whose WhichShard can run a hook first when a request handler calls it.
type hookSharder struct {
	sharder.Sharder
	driver int64
	hook   func()
}

func (h *hookSharder) WhichShard(traceID string) sharder.Shard {
	if f := h.hook; f != nil && goid() != h.driver {
		h.hook = nil
		f()
	}
	return h.Sharder.WhichShard(traceID)
}

func runStressB(t *testing.T, p *Plan) *Outcome {
	out := NewOutcome()
	pt := InBubble(t, func() {
		w := newWorldB(p, out, bOpts{
			nodes: int(p.N["nodes"]), peerType: "file", workers: int(p.N["workers"]),
			traceTimeout: 300 * time.Millisecond, sendDelay: 50 * time.Millisecond, sendTicker: 20 * time.Millisecond,
			batchTimeout: us(p.N["batch_timeout_us"]), maxBatch: int(p.N["max_batch"]), stressMode: "never", inQueue: 1000, stressRate: uint64(p.Get("stress_rate", 2)),
			sampler: &config.DeterministicSamplerConfig{SampleRate: int(p.Get("sampler_rate", 1))}, samplerName: "DeterministicSampler", shuffleSeed: p.Seed,
		})
		for _, n := range w.nodes {
			if err := n.startNode(); err != nil {
				out.Harness = fmt.Sprintf("node %s: %v", n.name, err)
				return
			}
		}
		w.drv.Settle()
		hookSh := map[int]*hookSharder{}
		for _, n := range w.nodes {
			hs := &hookSharder{Sharder: n.shard, driver: goid()}
			hookSh[n.idx] = hs
			n.app.IncomingRouter.Sharder = hs
			n.app.PeerRouter.Sharder = hs
		}
		addrIdx := map[string]int{}
		for _, n := range w.nodes {
			addrIdx[n.addr] = n.idx
		}
		const site = "route.Router.processEvent"
		var evs []*stressEv
		seenAt := map[string]bool{} // node/trace seen
		gate := &SendGate{}
		gate.Install()
		defer gate.Uninstall()
		var last int64
		for _, op := range p.Ops {
			op := op
			if int(op.I) >= len(w.nodes) {
				continue
			}
			switch op.K {
			case "park_send":
				if op.At > last {
					last = op.At
				}
				w.drv.AtSig(us(op.At), "park_send", fmt.Sprintf("op/%d", op.ID), "", func() { gate.Park(); out.Fault("senders_held") })
				continue
			case "release_send":
				if op.At > last {
					last = op.At
				}
				w.drv.AtSig(us(op.At), "release_send", fmt.Sprintf("op/%d", op.ID), "", func() {
					gate.Release()
					if gate.Held > 0 {
						out.Probe("batch_waited_for_its_sender")
					}
				})
				continue
			}
			if op.I < 0 {
				// "at the owner": resolved now that the sharders are up
				op.I = int64(addrIdx[w.nodes[0].shard.WhichShard(traceIDFor(p.Seed, int(op.J))).GetAddress()])
			}
			if op.At > last {
				last = op.At
			}
			switch op.K {
			case "stress":
				w.drv.AtSig(us(op.At), "stress", fmt.Sprintf("op/%d", op.ID), fmt.Sprintf("%d/%d", op.I, op.N), func() {
					n := w.nodes[op.I]
					n.cfg.Mux.Lock()
					if op.N == 1 {
						n.cfg.StressRelief.Mode = "always"
					} else {
						n.cfg.StressRelief.Mode = "never"
					}
					n.cfg.Mux.Unlock()
					n.cfg.Reload()
					out.Fault("stress_relief_toggle")
				})
			case "ev":
				tid := traceIDFor(p.Seed, int(op.J))
				ev := &bEvent{marker: fmt.Sprintf("m%d", op.N), traceID: tid, root: op.M == 0, rate: int(1 + op.N%3),
					ts: time.Unix(1700000000+op.N, 0).UTC(), fields: map[string]any{"f1": "v" + fmt.Sprint(op.N%4)}}
				ep, how, _ := strings.Cut(op.T, "|")
				req := &bRequest{id: op.ID, node: int(op.I), endpoint: ep, enc: op.S, apiKey: legacyKey, dataset: "ds", events: []*bEvent{ev}}
				se := &stressEv{op: op, ev: ev, req: req, entry: int(op.I), late: op.B}
				reliefEnds := how == "relief_ends"
				reliefStarts := how == "relief_starts"
				evs = append(evs, se)
				w.drv.AtSig(us(op.At), "request", fmt.Sprintf("op/%d", op.ID), fmt.Sprintf("%d/%d", op.I, op.J), func() {
					n := w.nodes[se.entry]
					se.owner = addrIdx[n.shard.WhichShard(tid).GetAddress()]
					se.entryStressed = n.sr.Stressed()
					key := fmt.Sprintf("%d/%s", se.entry, tid)
					if !seenAt[key] && se.entryStressed {
						se.firstSeenStress = true
					}
					seenAt[key] = true
					if reliefStarts && !se.entryStressed {
						// the router looks the trace's owner up after it has read the stress
						// state: relief starts right there
						se.reliefStartedDuring = true
						hookSh[se.entry].hook = func() {
							n.cfg.Mux.Lock()
							n.cfg.StressRelief.Mode = "always"
							n.cfg.Mux.Unlock()
							n.sr.UpdateFromConfig()
							n.sr.Recalc()
							out.Probe("relief_started_while_span_in_router")
							out.Fault("stress_relief_toggle")
						}
					}
					if reliefEnds && se.entryStressed {
						// the collector's stress path announces itself to the tracer after the
						// router has read the stress state: relief ends right there
						armed := true
						n.tr.OnStart = func(name string, _ func(string) (attribute.Value, bool)) {
							if !armed || name != "collector.ProcessSpanImmediately" {
								return
							}
							armed = false
							n.cfg.Mux.Lock()
							n.cfg.StressRelief.Mode = "never"
							n.cfg.Mux.Unlock()
							n.sr.UpdateFromConfig()
							n.sr.Recalc()
							out.Probe("relief_ended_while_span_in_router")
							out.Fault("stress_relief_toggle")
						}
					}
					w.send(req)
				})
			}
		}
		// never buffered: checked at quiescence after every request step
		w.drv.AfterStep = func(kind, ident string) {
			if kind != "request" {
				return
			}
			for _, se := range evs {
				if "op/"+fmt.Sprint(se.op.ID) != ident || !se.entryStressed || se.late {
					continue
				}
				n := w.nodes[se.entry]
				for wk := 0; wk < n.coll.VerifWorkers(); wk++ {
					for _, b := range n.coll.VerifBuffered(wk, time.Second) {
						if b.TraceID == se.ev.traceID {
							// only a violation if the trace was first seen under stress on this node
							if traceFirstSeenStressed(evs, se) {
								out.Violate("C16", "stressed_trace_buffered", site, "event %s arrived at stressed node n%d for a trace first seen under stress, but the trace is in the node's buffer", se.ev.marker, se.entry)
								out.Violate("C19", "event_took_two_paths", site, "event %s arrived at stressed node n%d and was decided by the stress rule, yet it was also handed to the node's collector (its trace is in the buffer)", se.ev.marker, se.entry)
							}
						}
					}
				}
			}
		}
		// whatever the plan says (a minimised plan may have lost its release), no
		// sender is held beyond the last operation
		w.drv.Run(us(last) + time.Microsecond)
		gate.Close()
		w.drv.Run(us(last) + 2*time.Second)

		w.mu.Lock()
		hnyBy := map[string][]*hnyEvent{}
		for _, h := range w.hny {
			hnyBy[h.marker] = append(hnyBy[h.marker], h)
			if v, ok := h.data["meta.refinery.probe"]; ok && v != false {
				out.Violate("C16", "probe_forwarded_to_honeycomb", site, "Honeycomb received event %s from %s carrying meta.refinery.probe=%v", h.marker, h.from, v)
			}
		}
		peerBy := map[string][]*peerDelivery{}
		for _, d := range w.peerLog {
			peerBy[d.marker] = append(peerBy[d.marker], d)
		}
		w.mu.Unlock()

		// decision per (entry node, trace) under stress
		decided := map[string]bool{}
		for _, se := range evs {
			mk := se.ev.marker
			hs := hnyBy[mk]
			desc := fmt.Sprintf("event %s (trace#%d, entry n%d stressed=%v, owner n%d, late=%v)", mk, se.op.J, se.entry, se.entryStressed, se.owner, se.late)
			if !se.req.finished || se.req.resp.status() != 200 {
				out.Violate("C16", "request_not_accepted", "route.Router", "%s: statuses %v", desc, se.req.resp.statuses)
				continue
			}
			n := w.nodes[se.entry]
			rate, keep, _ := n.sr.GetSampleRate(se.ev.traceID)
			if cfgRate := uint(p.Get("stress_rate", 2)); rate != cfgRate || (cfgRate == 1 && !keep) {
				out.Violate("C16", "stress_decision_not_as_configured", "collect.StressRelief.GetSampleRate", "trace#%d: StressRelief.SamplingRate is %d, n%d answers keep=%v rate=%d", se.op.J, cfgRate, se.entry, keep, rate)
			}
			for _, o := range w.nodes {
				if r2, k2, _ := o.sr.GetSampleRate(se.ev.traceID); r2 != rate || k2 != keep {
					out.Violate("C16", "nodes_disagree_on_stress_decision", "collect.StressRelief.GetSampleRate", "trace#%d: n%d says keep=%v rate=%d, n%d says keep=%v rate=%d", se.op.J, se.entry, keep, rate, o.idx, k2, r2)
				}
			}
			if se.op.J >= 100 {
				// a trace decided by the ordinary sampler before the stress began
				if se.op.N >= 2000 {
					// its late span, arriving at the stressed owner: follows the recorded decision and rate
					var first *stressEv
					for _, o := range evs {
						if o.op.J == se.op.J && o.op.N < 2000 {
							first = o
						}
					}
					if first == nil || !se.entryStressed {
						continue
					}
					fh := hnyBy[first.ev.marker]
					out.Probe("late_span_under_stress_of_trace_decided_before")
					if len(fh) == 0 {
						if len(hs) != 0 {
							out.Violate("C16", "late_span_does_not_follow_recorded_decision", "collect.InMemCollector.ProcessSpanImmediately", "%s: its trace was dropped by the sampler before the stress began, yet this span reached Honeycomb", desc)
						}
						continue
					}
					if len(hs) != 1 {
						out.Violate("C16", "late_span_does_not_follow_recorded_decision", "collect.InMemCollector.ProcessSpanImmediately", "%s: its trace was kept before the stress began but this span reached Honeycomb %d times", desc, len(hs))
						continue
					}
					traceRate := fh[0].rate / int64(first.ev.rate)
					if want := int64(se.ev.rate) * traceRate; hs[0].rate != want {
						out.Violate("C04", "late_span_under_stress_uses_wrong_rate", "collect.InMemCollector.ProcessSpanImmediately", "%s: its trace was decided at rate %d before the stress began; client rate %d, so %d expected, forwarded with %d (stress rate is %d)", desc, traceRate, se.ev.rate, want, hs[0].rate, rate)
					}
				}
				continue
			}
			if se.entryStressed && traceFirstSeenStressed(evs, se) {
				decided[fmt.Sprintf("%d/%s", se.entry, se.ev.traceID)] = keep
				if se.owner != se.entry && w.nodes[se.owner].cfg.StressRelief.Mode == "always" {
					out.Probe("both_entry_and_owner_stressed")
				}
				if keep {
					out.Probe("stressed_span_kept")
					if se.owner != se.entry {
						out.Probe("stressed_on_non_owner_kept")
						for _, d := range peerBy[mk] {
							if d.probe {
								out.Probe("probe_sent_to_owner")
							}
						}
					}
					if len(hs) != 1 {
						where := "nowhere"
						for _, d := range peerBy[mk] {
							where = fmt.Sprintf("%s -> %s (probe=%v)", d.from, d.to, d.probe)
						}
						out.Violate("C16", "kept_stressed_span_not_delivered_exactly_once", site, "%s: kept by the stress rule (rate %d) but reached Honeycomb %d times; peer deliveries: %s", desc, rate, len(hs), where)
						if len(hs) > 1 {
							out.Violate("C19", "event_handled_more_than_once", site, "%s: sent by the stress rule, and reached Honeycomb %d times", desc, len(hs))
						}
						continue
					}
					h := hs[0]
					if h.from != n.name {
						out.Violate("C16", "kept_stressed_span_sent_by_other_node", site, "%s reached Honeycomb from %s", desc, h.from)
					}
					if v, _ := h.data["meta.stressed"].(bool); !v {
						out.Violate("C16", "kept_stressed_span_not_marked", site, "%s arrived without meta.stressed: %v", desc, h.data)
					}
					if h.apiKey != se.req.apiKey || h.dataset != se.req.dataset {
						out.Violate("C16", "kept_stressed_span_envelope_altered", site, "%s arrived with key=%q dataset=%q", desc, h.apiKey, h.dataset)
					}
					want := int64(se.ev.rate) * int64(rate)
					if h.rate != want {
						out.Violate("C04", "stress_sample_rate", site, "%s: client rate %d x stress rate %d, arrived with %d", desc, se.ev.rate, rate, h.rate)
					}
					for k, v := range se.ev.wireFields() {
						if !valuesEqual(v, h.data[k]) {
							out.Violate("C16", "kept_stressed_span_field_altered", site, "%s: field %q client=%v arrived=%v", desc, k, v, h.data[k])
						}
					}
				} else {
					out.Probe("stressed_span_dropped")
					if len(hs) != 0 {
						out.Violate("C16", "dropped_stressed_span_delivered", site, "%s: dropped by the stress rule but reached Honeycomb %d times", desc, len(hs))
					}
					for _, d := range peerBy[mk] {
						out.Violate("C16", "dropped_stressed_span_forwarded", site, "%s: dropped by the stress rule but forwarded %s -> %s", desc, d.from, d.to)
					}
				}
				continue
			}
			// later span, relief has ended, on the node that made the stress decision and owns the trace
			if se.late && !se.entryStressed && se.owner == se.entry {
				if k, ok := decided[fmt.Sprintf("%d/%s", se.entry, se.ev.traceID)]; ok {
					out.Probe("late_span_after_relief_on_owner")
					if k && len(hs) != 1 {
						out.Violate("C16", "late_span_does_not_follow_stress_decision", "collect.InMemCollector", "%s: the trace was kept under stress but this later span reached Honeycomb %d times", desc, len(hs))
					}
					if !k && len(hs) != 0 {
						out.Violate("C16", "late_span_does_not_follow_stress_decision", "collect.InMemCollector", "%s: the trace was dropped under stress but this later span reached Honeycomb %d times", desc, len(hs))
					}
				}
			}
			// (only when the entry node owns the trace: a forwarded span may meet a
			// stressed owner, whose stress rule then decides it)
			if se.reliefStartedDuring && se.owner == se.entry && p.Get("sampler_rate", 1) == 1 && !se.late && se.op.J < 100 {
				everStressed := false
				for _, o := range evs {
					// an earlier span of the trace handled under stress may have left a
					// remembered decision that this span follows; later ones cannot
					if o.ev.traceID == se.ev.traceID && o != se && o.op.At <= se.op.At && (o.entryStressed || o.reliefStartedDuring) {
						everStressed = true
					}
				}
				if !everStressed {
					out.Probe("unstressed_span_checked_after_relief_started_during_it")
					if len(hs) != 1 {
						out.Violate("C23", "accepted_but_discarded", site, "%s: answered with success while the node was not stressed (relief started while the span was inside the router), the sampler keeps everything, yet it reached Honeycomb %d times", desc, len(hs))
						out.Violate("C19", "span_not_handled_exactly_once", site, "%s: accepted while the node was not stressed (relief started while the span was inside the router), the sampler keeps everything, yet it reached Honeycomb %d times", desc, len(hs))
						out.Violate("C16", "unstressed_span_lost_when_relief_started", site, "%s: the router saw the node unstressed, relief started while the span was inside the router, the sampler keeps everything, yet it reached Honeycomb %d times", desc, len(hs))
					}
				}
			}
			if len(hs) > 1 {
				out.Violate("C16", "span_delivered_twice", site, "%s reached Honeycomb %d times", desc, len(hs))
				out.Violate("C19", "event_handled_more_than_once", site, "%s reached Honeycomb %d times", desc, len(hs))
			}
		}
		var log []string
		for _, se := range evs {
			log = append(log, fmt.Sprintf("%s trace#%d entry=n%d stressed=%v owner=n%d late=%v hny=%d peer=%d", se.ev.marker, se.op.J, se.entry, se.entryStressed, se.owner, se.late, len(hnyBy[se.ev.marker]), len(peerBy[se.ev.marker])))
		}
		sort.Strings(log)
		out.Log = append(out.Log, log...)
		for _, n := range w.nodes {
			n.shutdown()
		}
		w.drv.Settle()
	})
	if pt != "" && out.Harness == "" {
		out.Harness = "panic: " + pt
	}
	return out
}

// traceFirstSeenStressed: the first event of se's trace at se's entry node arrived while that node was stressed.
func traceFirstSeenStressed(evs []*stressEv, se *stressEv) bool {
	for _, o := range evs {
		if o.ev.traceID != se.ev.traceID {
			continue
		}
		if o.entry != se.entry && o.owner == se.entry && o.op.At <= se.op.At {
			// the node has seen this trace before through a peer: a span that entered
			// elsewhere was forwarded to it as the owner. Whatever it decided then
			// (sampler or stress rule) is remembered and is what later spans follow;
			// the expectations for "first seen under stress" do not apply.
			return false
		}
		if o.entry == se.entry {
			return o.firstSeenStress
		}
	}
	return false
}
