//go:build verif

package verifsim

import (
	"encoding/json"
	"fmt"
	"os"
	"path/filepath"
	"reflect"
	"strings"
	"testing"
	"time"

	"github.com/honeycombio/refinery/config"
)

// C35, configuration sub-world: the real fileConfig (World B runs use MockConfig,
// which has a lock of its own) under concurrent reloads, readers of every getter,
// reload callbacks that read the config back, and marshalling of what the getters
// return (what the query endpoints do). The race detector is the oracle.
//
// Every getter of the config.Config interface is called through reflection, so a
// getter added later is covered without touching this file.

func genCfgRace(r *Rng, tier string, p *Plan) {
	p.N["cfgrace"] = 1
	n := r.Range(4, 12)
	if tier == "thorough" {
		n = r.Range(4, 40)
	}
	now := int64(0)
	for i := 0; i < n; i++ {
		now += PickOf(r, int64(0), 0, 1000, 100_000)
		switch r.Intn(5) {
		case 0:
			p.Add(Op{K: "write", At: now, S: "cfg", N: int64(PickOf(r, 0, 1, 2, 6, 8))})
		case 1:
			p.Add(Op{K: "write", At: now, S: "rules", N: int64(PickOf(r, 0, 1, 3))})
		case 2:
			p.Add(Op{K: "reload", At: now, N: int64(r.Range(1, 3))})
		default:
			p.Add(Op{K: "read", At: now, N: int64(r.Range(1, 4)), M: int64(r.Intn(2))})
		}
	}
	p.SortOps()
}

func callAllGetters(cfg config.Config, marshal bool) {
	v := reflect.ValueOf(cfg)
	t := v.Type()
	for i := 0; i < t.NumMethod(); i++ {
		m := t.Method(i)
		if !strings.HasPrefix(m.Name, "Get") && !strings.HasPrefix(m.Name, "Determine") {
			continue
		}
		mt := m.Type
		args := []reflect.Value{}
		ok := true
		for a := 1; a < mt.NumIn(); a++ { // 0 is the receiver
			if mt.In(a).Kind() == reflect.String {
				args = append(args, reflect.ValueOf("env1"))
			} else {
				ok = false
			}
		}
		if !ok || mt.IsVariadic() {
			continue
		}
		outs := v.Method(i).Call(args)
		if marshal {
			for _, o := range outs {
				if o.CanInterface() {
					_, _ = json.Marshal(o.Interface())
				}
			}
		}
	}
}

func runCfgRace(t *testing.T, p *Plan) *Outcome {
	out := NewOutcome()
	newRaceReports()
	dir, err := os.MkdirTemp("", "verif-c35cfg-")
	if err != nil {
		out.Harness = err.Error()
		return out
	}
	defer os.RemoveAll(dir)
	pt := InBubble(t, func() {
		write := func(target string, v int) {
			content := cfgVariants[v]
			if target == "rules" {
				content = rulesVariants[v]
			}
			os.WriteFile(filepath.Join(dir, target+".yaml"), []byte(content), 0o644)
		}
		write("cfg", 0)
		write("rules", 0)
		opts := &config.CmdEnv{ConfigLocations: []string{filepath.Join(dir, "cfg.yaml")}, RulesLocations: []string{filepath.Join(dir, "rules.yaml")}}
		cfg, err := config.NewConfig(opts)
		if cfg == nil {
			out.Harness = fmt.Sprintf("base config rejected: %v", err)
			return
		}
		// listeners read the new configuration back, as refinery's components do
		for i := 0; i < 2; i++ {
			cfg.RegisterReloadCallback(func(a, b string) { callAllGetters(cfg, false) })
		}
		out.Probe("race_run_real_fileconfig")
		drv := NewDriver(out, p.Seed)
		drv.RaceMode = true
		var last int64
		for _, op := range p.Ops {
			op := op
			if op.At > last {
				last = op.At
			}
			drv.AtSig(us(op.At), op.K, fmt.Sprintf("op/%d", op.ID), fmt.Sprintf("%s%d", op.S, op.N), func() {
				switch op.K {
				case "write":
					write(op.S, int(op.N))
				case "reload":
					for i := int64(0); i < op.N; i++ {
						go cfg.Reload()
					}
				case "read":
					for i := int64(0); i < op.N; i++ {
						go callAllGetters(cfg, op.M == 1)
					}
				}
			})
		}
		drv.Run(us(last) + time.Second)
	})
	for _, rep := range newRaceReports() {
		site, harnessOnly := raceSite(rep)
		if harnessOnly {
			if out.Harness == "" {
				out.Harness = "race report with no refinery frame (harness race?):\n" + rep
			}
			continue
		}
		out.Violate("C35", "data_race", site, "the race detector reported:\n%s", strings.TrimSpace(rep))
	}
	if pt != "" && out.Harness == "" && !strings.Contains(pt, "blocked goroutines remain") {
		out.Harness = "panic/deadlock in bubble: " + pt
	}
	return out
}
