//go:build verif

package verifsim

import (
	"encoding/json"
	"fmt"
	"os"
	"path/filepath"
	"reflect"
	"strings"
	"sync"
	"testing"
	"time"

	"github.com/honeycombio/refinery/config"
)

// C35, configuration sub-world: the real fileConfig (World B runs use MockConfig,
// which has a lock of its own) under concurrent reloads, readers of every getter,
// reload callbacks that read the config back, and marshalling of what the getters
// return (what the query endpoints do). The race detector is the oracle.
//
// Every getter of the config.Config interface is called through reflection, so a
// getter added later is covered without touching this file.

func genCfgRace(r *Rng, tier string, p *Plan) {
	p.N["cfgrace"] = 1
	now := int64(0)
	// a sweep: every getter once, each in a step of its own together with one
	// reload that applies changed content. The detector remembers only the last
	// four accesses to a memory word, so a getter is judged alone with its
	// reload; were all sixty getters to run beside one reload, their (locked)
	// reads of the same word would push out the one that matters.
	p.Add(Op{K: "sweep", At: now, I: int64(r.Intn(1 << 30)), B: r.Bool(0.3)})
	now += 1_000_000
	n := r.Range(0, 8)
	if tier == "thorough" {
		n = r.Range(0, 40)
	}
	for i := 0; i < n; i++ {
		now += PickOf(r, int64(1000), 100_000)
		// a round: the sources change, and in the same step one reload (or two) and
		// a few readers start
		p.Add(Op{K: "round", At: now, S: PickOf(r, "cfg", "cfg", "rules"), N: int64(i), I: int64(r.Intn(1 << 30)), J: int64(PickOf(r, 1, 2, 4, 1000)), M: int64(r.Intn(3)), B: r.Bool(0.3)})
	}
	p.SortOps()
}

var cfgRaceCfg = []int{0, 1, 2, 6, 8}
var cfgRaceRules = []int{0, 1, 3}

// getterCalls returns one closure per getter of the config.
func getterCalls(cfg config.Config, marshal bool) []func() {
	var calls []func()
	v := reflect.ValueOf(cfg)
	t := v.Type()
	for i := 0; i < t.NumMethod(); i++ {
		m := t.Method(i)
		if !strings.HasPrefix(m.Name, "Get") && !strings.HasPrefix(m.Name, "Determine") {
			continue
		}
		mt := m.Type
		args := []reflect.Value{}
		ok := true
		for a := 1; a < mt.NumIn(); a++ { // 0 is the receiver
			if mt.In(a).Kind() == reflect.String {
				args = append(args, reflect.ValueOf("env1"))
			} else {
				ok = false
			}
		}
		if !ok || mt.IsVariadic() {
			continue
		}
		fn := v.Method(i)
		calls = append(calls, func() {
			outs := fn.Call(args)
			if marshal {
				for _, o := range outs {
					if o.CanInterface() {
						_, _ = json.Marshal(o.Interface())
					}
				}
			}
		})
	}
	return calls
}

func callAllGetters(cfg config.Config, marshal bool) {
	for _, f := range getterCalls(cfg, marshal) {
		f()
	}
}

// warmCfgRace runs once per process, outside any measured run: reflection, the
// YAML decoder and the validator fill process-wide caches (sync.Map stores) the
// first time they see a type, and such a store in one goroutine followed by a
// load in another is a happens-before edge between a getter and a reload that
// has nothing to do with refinery. After the warm-up those caches are only read.
var warmCfgRaceOnce sync.Once

func warmCfgRace() {
	dir, err := os.MkdirTemp("", "verif-c35warm-")
	if err != nil {
		return
	}
	defer os.RemoveAll(dir)
	os.WriteFile(filepath.Join(dir, "cfg.yaml"), []byte(cfgVariants[0]), 0o644)
	os.WriteFile(filepath.Join(dir, "rules.yaml"), []byte(rulesVariants[0]), 0o644)
	opts := &config.CmdEnv{ConfigLocations: []string{filepath.Join(dir, "cfg.yaml")}, RulesLocations: []string{filepath.Join(dir, "rules.yaml")}}
	cfg, _ := config.NewConfig(opts)
	if cfg == nil {
		return
	}
	cfg.RegisterReloadCallback(func(a, b string) { callAllGetters(cfg, true) })
	for k := 0; k < 2; k++ {
		for _, v := range cfgRaceCfg {
			os.WriteFile(filepath.Join(dir, "cfg.yaml"), []byte(cfgVariants[v]), 0o644)
			cfg.Reload()
			callAllGetters(cfg, k == 0)
		}
		for _, v := range cfgRaceRules {
			os.WriteFile(filepath.Join(dir, "rules.yaml"), []byte(rulesVariants[v]), 0o644)
			cfg.Reload()
			callAllGetters(cfg, k == 0)
		}
	}
}

func runCfgRace(t *testing.T, p *Plan) *Outcome {
	out := NewOutcome()
	warmCfgRaceOnce.Do(warmCfgRace)
	newRaceReports()
	dir, err := os.MkdirTemp("", "verif-c35cfg-")
	if err != nil {
		out.Harness = err.Error()
		return out
	}
	defer os.RemoveAll(dir)
	pt := InBubble(t, func() {
		write := func(target string, v int) {
			content := cfgVariants[v]
			if target == "rules" {
				content = rulesVariants[v]
			}
			os.WriteFile(filepath.Join(dir, target+".yaml"), []byte(content), 0o644)
		}
		write("cfg", 0)
		write("rules", 0)
		opts := &config.CmdEnv{ConfigLocations: []string{filepath.Join(dir, "cfg.yaml")}, RulesLocations: []string{filepath.Join(dir, "rules.yaml")}}
		cfg, err := config.NewConfig(opts)
		if cfg == nil {
			out.Harness = fmt.Sprintf("base config rejected: %v", err)
			return
		}
		// listeners read the new configuration back, as refinery's components do
		for i := 0; i < 2; i++ {
			cfg.RegisterReloadCallback(func(a, b string) { callAllGetters(cfg, false) })
		}
		out.Probe("race_run_real_fileconfig")
		drv := NewDriver(out, p.Seed)
		drv.RaceMode = true
		nwrites := 0
		var last int64
		for _, op := range p.Ops {
			op := op
			if op.At > last {
				last = op.At
			}
			drv.AtSig(us(op.At), op.K, fmt.Sprintf("op/%d", op.ID), fmt.Sprintf("%s%d", op.S, op.N), func() {
				calls := getterCalls(cfg, op.B)
				switch op.K {
				case "sweep":
					for k := range calls {
						// seeded order; content alternates so that every reload applies
						f := calls[(k*7+int(op.I))%len(calls)]
						nwrites++
						write("cfg", cfgRaceCfg[nwrites%len(cfgRaceCfg)])
						if H(uint64(op.I), "order", k)%2 == 0 {
							go cfg.Reload()
							go f()
						} else {
							go f()
							go cfg.Reload()
						}
						time.Sleep(time.Nanosecond)
					}
				case "round":
					nwrites++
					if op.S == "cfg" {
						write("cfg", cfgRaceCfg[nwrites%len(cfgRaceCfg)])
					} else {
						write("rules", cfgRaceRules[nwrites%len(cfgRaceRules)])
					}
					var readers []func()
					if int(op.J) >= len(calls) {
						readers = calls
					} else {
						for k := int64(0); k < op.J; k++ {
							readers = append(readers, calls[int(H(uint64(op.I), "getter", k)%uint64(len(calls)))])
						}
					}
					// one goroutine per getter call: the detector works on happens-before,
					// and a reader that went on to take the config's lock for its next
					// getter would order its earlier reads before any later reload
					if op.M != 1 {
						go cfg.Reload()
					}
					for _, f := range readers {
						go f()
					}
					if op.M != 0 {
						go cfg.Reload()
					}
				}
			})
		}
		drv.Run(us(last) + time.Second)
	})
	for _, rep := range newRaceReports() {
		site, harnessOnly := raceSite(rep)
		if harnessOnly {
			if out.Harness == "" {
				out.Harness = "race report with no refinery frame (harness race?):\n" + rep
			}
			continue
		}
		out.Violate("C35", "data_race", site, "the race detector reported:\n%s", strings.TrimSpace(rep))
	}
	if pt != "" && out.Harness == "" && !strings.Contains(pt, "blocked goroutines remain") {
		out.Harness = "panic/deadlock in bubble: " + pt
	}
	return out
}
