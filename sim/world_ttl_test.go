//go:build verif

package verifsim

import (
	"fmt"
	"sort"
	"testing"
	"time"

	"github.com/jonboulle/clockwork"

	"github.com/honeycombio/refinery/generics"
)

// hookClock is the clock given to the set/map: the bubble clock, whose next
// Now() can be made to run something first. A lookup reads the clock between
// finding an entry and judging it; that read is the seam for "a refresh of the
// same element lands in the middle of a lookup".
type hookClock struct {
	clockwork.Clock
	hook func()
	skip int // clock reads to let pass before the hook runs
}

func (c *hookClock) Now() time.Time {
	if h := c.hook; h != nil {
		if c.skip > 0 {
			c.skip--
		} else {
			c.hook = nil
			h()
		}
	}
	return c.Clock.Now()
}

// C32: TTL sets and maps agree on membership at every instant.
//
// Real code: generics.SetWithTTL, generics.MapWithTTL on the bubble clock
// (their default clockwork.NewRealClock() is the fake clock inside a bubble),
// so an advance can land exactly on an expiry instant.
//
// Oracle (from the statement): with exp = last add + TTL, strictly before exp
// every query says present, strictly after exp every query says absent, and at
// every instant (including exp itself) all queries agree with each other.

func init() {
	Register(&Check{
		ID: "C32", World: "E/ttl",
		Gen: genTTL, Run: runTTL, Simplify: simplifyTTL,
		OwnProbes: []string{"query_at_expiry_instant", "query_after_expiry", "readd_before_expiry", "refresh_landed_inside_lookup", "refresh_landed_inside_listing", "burst_expired"},
		Real:      []string{"generics.SetWithTTL", "generics.MapWithTTL"},
		Stub:      []string{"clock: testing/synctest bubble clock"},
	})
}

var ttlItems = []string{"a", "b", "c", "d", "e"}

func genTTL(r *Rng, tier string, p *Plan) {
	p.N["map"] = int64(r.Intn(2))
	ttl := PickOf(r, int64(1), 1000, 3000, 50_000, 3_000_000, 1000, 3000, 50_000, 0) // µs (0: an entry lives for the instant it was added in)
	p.N["ttl_us"] = ttl
	n := r.Range(3, 14)
	if tier == "thorough" {
		n = r.Range(3, 40)
	}
	now := int64(0)
	exp := map[string]int64{}
	if r.Bool(0.1) {
		// many entries that expire together: more than any batch size a clean-up
		// pass might have
		p.Add(Op{K: "burst", N: int64(PickOf(r, 100, 1025, 1500, 3000)), At: now})
	}
	if ttl >= 1000 && r.Bool(0.2) {
		// staggered expiries: several items added a fraction of the TTL apart, then
		// the clock goes from one expiry to the next, every query asked at each stop
		k := r.Range(3, min(5, len(ttlItems)))
		gap := ttl / int64(k+2)
		first := now
		for i := 0; i < k; i++ {
			it := ttlItems[(i+int(ttl))%len(ttlItems)]
			p.Add(Op{K: "add", S: it, At: now})
			exp[it] = now + ttl
			if i < k-1 {
				p.Add(Op{K: "adv", N: gap, At: now})
				now += gap
			}
		}
		for i := 0; i < k; i++ {
			to := first + int64(i)*gap + ttl + PickOf(r, int64(1), 1, 0, gap/2)
			if to > now {
				p.Add(Op{K: "adv", N: to - now, At: now})
				now = to
			}
		}
	}
	for i := 0; i < n; i++ {
		switch r.Intn(10) {
		case 0, 1, 2, 3:
			it := PickOf(r, ttlItems...)
			p.Add(Op{K: "add", S: it, At: now})
			exp[it] = now + ttl
		case 4:
			it := PickOf(r, ttlItems...)
			p.Add(Op{K: "rm", S: it, At: now})
			delete(exp, it)
		case 6:
			if !r.Bool(0.5) {
				p.Add(Op{K: "adv", N: 0, At: now})
				break
			}
			// a listing with a refresh of a listed element landing in the middle of it
			// (the listing reads the clock while it walks the entries)
			it := PickOf(r, ttlItems...)
			p.Add(Op{K: "list_during_add", S: it, At: now, N: int64(r.Intn(36))}) // N: which clock read of the listing queries it lands in
			exp[it] = now + ttl
		case 5:
			// a lookup of an element with a refresh of it landing in the middle of the lookup
			it := PickOf(r, ttlItems...)
			// often: time passes first, beyond the element's expiry, with no query in
			// between (a query would clear the expired entry away), so that the
			// lookup finds an expired entry
			adv := int64(0)
			if e, ok := exp[it]; ok && e >= now && r.Bool(0.7) {
				adv = e - now + PickOf(r, int64(1), 1, 0, -1, ttl)
				if adv < 0 {
					adv = 0
				}
			}
			now += adv
			p.Add(Op{K: "lookup_during_add", S: it, At: now, N: adv})
			exp[it] = now + ttl
		default:
			// advance: land exactly on an expiry, just before/after, or random
			var targets []int64
			for _, e := range exp {
				if e >= now {
					targets = append(targets, e)
				}
			}
			sort.Slice(targets, func(i, j int) bool { return targets[i] < targets[j] })
			var to int64
			if len(targets) > 0 && r.Bool(0.7) {
				to = targets[r.Intn(len(targets))] + PickOf(r, int64(0), 0, 0, -1, 1)
			} else {
				to = now + r.I64n(ttl*2+2)
			}
			if to < now {
				to = now
			}
			p.Add(Op{K: "adv", N: to - now, At: now})
			now = to
		}
	}
	if r.Bool(0.15) {
		// a sweep: a refresh of a present element lands in each clock read of the
		// listing queries in turn (there are fewer than 36 of them)
		it := PickOf(r, ttlItems...)
		p.Add(Op{K: "add", S: it, At: now})
		for k := int64(0); k < 36; k++ {
			p.Add(Op{K: "list_during_add", S: it, At: now, N: k})
		}
	}
}

func simplifyTTL(p *Plan) []*Plan {
	var out []*Plan
	return out
}

type ttlSUT interface {
	add(k string)
	rm(k string)
	contains(k string) bool
	members() []string
	length() int
	extra() string // extra cross-checks; non-empty = disagreement
}

type setSUT struct{ s *generics.SetWithTTL[string] }

func (x setSUT) add(k string)           { x.s.Add(k) }
func (x setSUT) rm(k string)            { x.s.Remove(k) }
func (x setSUT) contains(k string) bool { return x.s.Contains(k) }
func (x setSUT) members() []string      { return x.s.Members() }
func (x setSUT) length() int            { return x.s.Length() }
func (x setSUT) extra() string          { return "" }

type mapSUT struct {
	m *generics.MapWithTTL[string, string]
}

func (x mapSUT) add(k string) { x.m.Set(k, "v-"+k) }
func (x mapSUT) rm(k string)  { x.m.Delete(k) }
func (x mapSUT) contains(k string) bool {
	_, ok := x.m.Get(k)
	return ok
}
func (x mapSUT) members() []string { return x.m.SortedKeys() }
func (x mapSUT) length() int       { return x.m.Length() }
func (x mapSUT) extra() string {
	keys := x.m.SortedKeys()
	vals := x.m.SortedValues()
	if len(keys) != len(vals) {
		return fmt.Sprintf("SortedKeys=%v SortedValues=%v differ in length", keys, vals)
	}
	for i, k := range keys {
		if vals[i] != "v-"+k {
			return fmt.Sprintf("SortedValues[%d]=%q for key %q", i, vals[i], k)
		}
		v, ok := x.m.Get(k)
		if ok && v != "v-"+k {
			return fmt.Sprintf("Get(%q)=%q", k, v)
		}
	}
	if n := len(x.m.Values()); n != len(keys) {
		return fmt.Sprintf("len(Values)=%d len(Keys)=%d", n, len(keys))
	}
	return ""
}

func runTTL(t *testing.T, p *Plan) *Outcome {
	out := NewOutcome()
	pt := InBubble(t, func() {
		ttl := time.Duration(p.N["ttl_us"]) * time.Microsecond
		var sut ttlSUT
		site := "generics.SetWithTTL"
		clk := &hookClock{Clock: clockwork.NewRealClock()}
		if p.On("map") {
			m := generics.NewMapWithTTL[string, string](ttl, nil)
			m.Clock = clk
			sut = mapSUT{m}
			site = "generics.MapWithTTL"
		} else {
			st := generics.NewSetWithTTL[string](ttl)
			st.Clock = clk
			sut = setSUT{st}
		}
		burst := 0
		start := time.Now()
		exp := map[string]time.Time{}
		check := func(where string) {
			now := time.Now()
			// query in an order that varies with the plan seed: the answers
			// must not depend on which query (with its internal cleanup) ran first
			order := H(p.Seed, where) % 3
			var mem []string
			var ln int
			cont := map[string]bool{}
			q := func(i uint64) {
				switch i {
				case 0:
					mem = sut.members()
				case 1:
					ln = sut.length()
				case 2:
					for _, k := range ttlItems {
						cont[k] = sut.contains(k)
					}
				}
			}
			for i := uint64(0); i < 3; i++ {
				q((order + i) % 3)
			}
			inMem := map[string]bool{}
			for _, k := range mem {
				inMem[k] = true
			}
			out.Logf("%s t=%v members=%v len=%d contains=%v", where, now.Sub(start), mem, ln, fmtSet(cont))
			// the burst entries all expire together: all listed or none
			nb := 0
			var rest []string
			for _, k := range mem {
				if len(k) > 1 && k[0] == '#' {
					nb++
				} else {
					rest = append(rest, k)
				}
			}
			if burst > 0 {
				be := exp["#0"]
				want := -1
				switch {
				case now.Before(be):
					want = burst
				case now.After(be):
					want = 0
					out.Probe("burst_expired")
				}
				if want >= 0 && nb != want {
					out.Violate("C32", "queries_disagree", site, "%s at t=%v: %d entries were added together and expire at t=%v, the listing shows %d of them", where, now.Sub(start), burst, be.Sub(start), nb)
				}
				if want >= 0 && ln != want+len(rest) {
					out.Violate("C32", "queries_disagree", site, "%s at t=%v: Length()=%d but %d of the entries added together should be present plus %v", where, now.Sub(start), ln, want, rest)
				}
				if c := sut.contains("#0"); want >= 0 && c != (want > 0) {
					out.Violate("C32", "queries_disagree", site, "%s at t=%v: membership test for one of the entries added together says %v, expected %v", where, now.Sub(start), c, want > 0)
				}
			}
			mem = rest
			ln -= nb
			if ln != len(mem) {
				out.Violate("C32", "queries_disagree", site, "%s at t=%v: Length()=%d but Members()=%v", where, now.Sub(start), ln, mem)
			}
			for _, k := range ttlItems {
				e, has := exp[k]
				if cont[k] != inMem[k] {
					atExp := has && e.Equal(now)
					out.Violate("C32", "queries_disagree", site, "%s at t=%v (expiry instant=%v): membership test for %q says %v but listing says %v", where, now.Sub(start), atExp, k, cont[k], inMem[k])
				}
				switch {
				case !has:
					if cont[k] || inMem[k] {
						out.Violate("C32", "present_but_never_added_or_removed", site, "%s: %q present (contains=%v listed=%v)", where, k, cont[k], inMem[k])
					}
				case now.Before(e):
					if !cont[k] || !inMem[k] {
						out.Violate("C32", "absent_before_expiry", site, "%s at t=%v: %q expires at %v but contains=%v listed=%v", where, now.Sub(start), k, e.Sub(start), cont[k], inMem[k])
					}
				case now.After(e):
					out.Probe("query_after_expiry")
					if cont[k] || inMem[k] {
						out.Violate("C32", "present_after_expiry", site, "%s at t=%v: %q expired at %v but contains=%v listed=%v", where, now.Sub(start), k, e.Sub(start), cont[k], inMem[k])
					}
				default:
					out.Probe("query_at_expiry_instant")
				}
			}
			if x := sut.extra(); x != "" {
				out.Violate("C32", "queries_disagree", site, "%s: %s", where, x)
			}
		}
		for _, op := range p.Ops {
			switch op.K {
			case "add":
				if e, ok := exp[op.S]; ok && time.Now().Before(e) {
					out.Probe("readd_before_expiry")
				}
				sut.add(op.S)
				exp[op.S] = time.Now().Add(ttl)
			case "burst":
				burst = int(op.N)
				for i := 0; i < burst; i++ {
					sut.add(fmt.Sprintf("#%d", i))
				}
				exp["#0"] = time.Now().Add(ttl)
			case "lookup_during_add":
				// the refresh runs in a goroutine of its own, started from inside the
				// lookup's clock read; it completes there, or waits for the lock the
				// lookup holds and completes right after
				if op.N > 0 {
					time.Sleep(time.Duration(op.N) * time.Microsecond)
				}
				done := make(chan struct{})
				clk.hook = func() {
					gid := make(chan int64, 1)
					go func() { gid <- goid(); sut.add(op.S); close(done) }()
					awaitGoroutine(<-gid, done)
				}
				sut.contains(op.S) // either answer is right for a lookup overlapping a refresh
				if clk.hook != nil {
					// the lookup did not read the clock (no entry): the refresh follows it
					clk.hook = nil
					sut.add(op.S)
					close(done)
				} else {
					out.Probe("refresh_landed_inside_lookup")
				}
				<-done
				exp[op.S] = time.Now().Add(ttl)
			case "list_during_add":
				// as lookup_during_add, for the listing queries. If the listing and the
				// refresh end up waiting for each other's lock, this call never returns:
				// the run never ends, which the orchestrator reports as a deadlock
				done := make(chan struct{})
				clk.hook = func() {
					gid := make(chan int64, 1)
					go func() { gid <- goid(); sut.add(op.S); close(done) }()
					awaitGoroutine(<-gid, done)
				}
				clk.skip = int(op.N)
				sut.members()
				sut.length()
				sut.extra() // for the map: SortedKeys, SortedValues, Get of every key, Values
				clk.skip = 0
				if clk.hook != nil {
					clk.hook = nil
					sut.add(op.S)
					close(done)
				} else {
					out.Probe("refresh_landed_inside_listing")
				}
				<-done
				exp[op.S] = time.Now().Add(ttl)
			case "rm":
				sut.rm(op.S)
				delete(exp, op.S)
			case "adv":
				time.Sleep(time.Duration(op.N) * time.Microsecond)
			}
			out.Step(op.K, op.S)
			check(fmt.Sprintf("after op#%d %s", op.ID, op.K))
		}
		out.SimMicros = int64(time.Now().Sub(start) / time.Microsecond)
	})
	if pt != "" {
		out.Harness = "panic: " + pt
	}
	return out
}

func fmtSet(m map[string]bool) string {
	var ks []string
	for k, v := range m {
		if v {
			ks = append(ks, k)
		}
	}
	sort.Strings(ks)
	return fmt.Sprint(ks)
}
