//go:build verif

package verifsim

import (
	"fmt"
	"math"
	"reflect"
	"sort"
	"strings"
	"testing"
	"time"

	"github.com/honeycombio/refinery/config"
	"github.com/honeycombio/refinery/internal/peer"
	"github.com/honeycombio/refinery/logger"
	"github.com/honeycombio/refinery/sharder"
)

// C17 (owner agreement, <= 1 hop, no self-forwarding) and C19 (every event
// takes exactly one route) on World B.

func init() {
	routeGen := genRoute("C17")
	Register(&Check{ID: "C17", World: "B/cluster + D/membership (sharder on real Redis peers)",
		// a fifth of the runs are World D membership histories (crash, restart,
		// partition, loss) with a real sharder on every node's real Redis peers
		Gen: func(r *Rng, tier string, p *Plan) {
			if r.Bool(0.2) {
				genPeers(r, tier, p)
				p.N["with_sharder"] = 1
				return
			}
			routeGen(r, tier, p)
		},
		Run: func(t *testing.T, p *Plan) *Outcome {
			if p.On("with_sharder") {
				return runPeers(t, p)
			}
			return runRoute(t, p)
		},
		Real: append(append([]string(nil), bReal...), "World D runs: internal/peer.RedisPubsubPeers + sharder.DeterministicSharder per node"), Stub: bStub,
		OwnProbes: []string{"span_forwarded_one_hop", "span_owned_by_entry_node", "owner_agreement_checked_multi_node", "redis_peers", "sharder_after_membership_history", "sharder_same_size_replacement", "sharder_on_redis_peers_after_crash", "registration_arrived_while_sharder_started"}})
	routeGen19 := genRoute("C19")
	Register(&Check{ID: "C19", World: "B/cluster",
		// "for any ownership and stress state": a fifth of the runs are the
		// stress-relief plans of C16, judged here for the one-path rule
		Gen: func(r *Rng, tier string, p *Plan) {
			if r.Bool(0.2) {
				p.N["stressb"] = 1
				genStressB(r, tier, p)
				return
			}
			routeGen19(r, tier, p)
		},
		Run: func(t *testing.T, p *Plan) *Outcome {
			if p.On("stressb") {
				return runStressB(t, p)
			}
			return runRoute(t, p)
		},
		Real: bReal, Stub: bStub,
		OwnProbes: []string{"span_forwarded_one_hop", "non_trace_event_direct", "probe_discarded", "forwarded_content_checked", "event_on_peer_listener", "stressed_span_kept", "two_api_keys_one_dataset"}})
}

func genRoute(check string) func(r *Rng, tier string, p *Plan) {
	return func(r *Rng, tier string, p *Plan) {
		nodes := PickOf(r, 1, 2, 2, 3, 3, 4)
		p.N["nodes"] = int64(nodes)
		p.N["redis"] = int64(PickOf(r, 0, 0, 1))
		p.N["workers"] = int64(PickOf(r, 1, 2))
		p.N["max_batch"] = int64(PickOf(r, 1, 2, 50))
		p.N["batch_timeout_us"] = PickOf(r, int64(10_000), 50_000)
		p.N["net_delay_us"] = PickOf(r, int64(0), 1000, 30_000)
		nTraces := r.Range(1, 8)
		if tier == "thorough" {
			nTraces = r.Range(1, 25)
		}
		mk := 0
		now := int64(0)
		type pend struct {
			op Op
		}
		for t := 0; t < nTraces; t++ {
			nsp := r.Range(1, 4)
			kind := r.Intn(10)
			for s := 0; s < nsp; s++ {
				now += PickOf(r, int64(0), 0, 1000, 20_000, 100_000)
				mk++
				op := Op{K: "ev", At: now, I: int64(r.Intn(nodes)), J: int64(t), N: int64(mk), S: PickOf(r, "json", "msgpack"), T: PickOf(r, "batch", "batch", "event")}
				switch {
				case kind == 0:
					op.M = 1 // no trace id
				case kind == 1 && check == "C19":
					op.M = 2 // probe
				default:
					if s == nsp-1 {
						op.M = 3 // root
					}
				}
				if check == "C19" && r.Bool(0.15) {
					op.B = true // arrives on the peer listener
				}
				p.Add(op)
			}
		}
		p.N["api_slash"] = int64(PickOf(r, 0, 0, 0, 1))
		p.N["cluster_name"] = int64(PickOf(r, 0, 0, 1))
		p.SortOps()
	}
}

// keyFor: a trace (or a trace-less event stream) belongs to one of two tenants;
// both use the same dataset names.
func keyFor(seed uint64, j int64) string {
	if H(seed, "tenant", j)%3 == 0 {
		return legacyKey2
	}
	return legacyKey
}

type routeEv struct {
	op    Op
	ev    *bEvent
	req   *bRequest
	entry int
	owner int // -1 for non-trace
}

func valuesEqual(client, got any) bool {
	if reflect.DeepEqual(client, got) {
		return true
	}
	cf, ok1 := toF(client)
	gf, ok2 := toF(got)
	return ok1 && ok2 && cf == gf
}

func toF(v any) (float64, bool) {
	switch x := v.(type) {
	case int:
		return float64(x), true
	case int8:
		return float64(x), true
	case int16:
		return float64(x), true
	case int32:
		return float64(x), true
	case int64:
		return float64(x), true
	case uint8:
		return float64(x), true
	case uint16:
		return float64(x), true
	case uint32:
		return float64(x), true
	case uint64:
		return float64(x), true
	case float32:
		return float64(x), true
	case float64:
		return x, !math.IsNaN(x)
	}
	return 0, false
}

func runRoute(t *testing.T, p *Plan) *Outcome {
	out := NewOutcome()
	pt := InBubble(t, func() {
		peerType := "file"
		if p.On("redis") {
			peerType = "redis"
			out.Probe("redis_peers")
		}
		w := newWorldB(p, out, bOpts{
			nodes: int(p.N["nodes"]), peerType: peerType, workers: int(p.N["workers"]),
			traceTimeout: 300 * time.Millisecond, sendDelay: 50 * time.Millisecond, sendTicker: 20 * time.Millisecond,
			batchTimeout: us(p.N["batch_timeout_us"]), maxBatch: int(p.N["max_batch"]), stressMode: "never", inQueue: 1000,
			sampler: &config.DeterministicSamplerConfig{SampleRate: 1}, samplerName: "DeterministicSampler", shuffleSeed: p.Seed,
		})
		for _, n := range w.nodes {
			if err := n.startNode(); err != nil {
				out.Harness = fmt.Sprintf("node %s: %v", n.name, err)
				return
			}
		}
		w.drv.Settle()
		if peerType == "redis" {
			// let the membership converge before traffic starts (a stably configured cluster is the precondition)
			w.drv.Run(8 * time.Second)
		}
		base := w.drv.Elapsed()
		addrIdx := map[string]int{}
		var addrs []string
		for _, n := range w.nodes {
			addrIdx[n.addr] = n.idx
			addrs = append(addrs, n.addr)
		}
		// ---- C17 (1): every node computes the same owner, and it is one of the peers
		owner := func(traceID string) int {
			first := ""
			for _, n := range w.nodes {
				a := n.shard.WhichShard(traceID).GetAddress()
				if _, ok := addrIdx[a]; !ok {
					out.Violate("C17", "owner_not_a_peer", "sharder.DeterministicSharder", "node %s says trace %s is owned by %q, which is not in the peer list %v", n.name, traceID, a, addrs)
				}
				if first == "" {
					first = a
				} else if a != first {
					out.Violate("C17", "nodes_disagree_on_owner", "sharder.DeterministicSharder", "trace %s: node n0 says %s, node %s says %s", traceID, first, n.name, a)
				}
			}
			if len(w.nodes) > 1 {
				out.Probe("owner_agreement_checked_multi_node")
			}
			return addrIdx[first]
		}
		var evs []*routeEv
		var last int64
		netDelay := us(p.N["net_delay_us"])
		_ = netDelay
		for _, op := range p.Ops {
			op := op
			if int(op.I) >= len(w.nodes) {
				continue
			}
			if op.At > last {
				last = op.At
			}
			tid := ""
			if op.M != 1 {
				tid = traceIDFor(p.Seed, int(op.J))
			}
			ev := &bEvent{marker: fmt.Sprintf("m%d", op.N), traceID: tid, root: op.M == 3, probe: op.M == 2, rate: int(1 + op.N%3),
				ts: time.Unix(1700000000+op.N, 500_000_000).UTC(), fields: map[string]any{"f1": "v" + fmt.Sprint(op.N%4), "big": int64(1) << 40}}
			req := &bRequest{id: op.ID, node: int(op.I), peer: op.B, endpoint: op.T, enc: op.S, apiKey: keyFor(p.Seed, op.J), dataset: "ds" + fmt.Sprint(op.J%2), events: []*bEvent{ev}}
			re := &routeEv{op: op, ev: ev, req: req, entry: int(op.I), owner: -1}
			if tid != "" {
				re.owner = owner(tid)
			}
			evs = append(evs, re)
			w.drv.AtSig(base+us(op.At), "request", fmt.Sprintf("op/%d", op.ID), fmt.Sprintf("%d/%d", op.I, op.M), func() { w.send(req) })
		}
		w.drv.Run(base + us(last) + 2*time.Second)

		// ---- oracles
		w.mu.Lock()
		hnyBy := map[string][]*hnyEvent{}
		for _, h := range w.hny {
			hnyBy[h.marker] = append(hnyBy[h.marker], h)
		}
		peerBy := map[string][]*peerDelivery{}
		for _, d := range w.peerLog {
			peerBy[d.marker] = append(peerBy[d.marker], d)
		}
		selfSend := w.selfSend
		w.mu.Unlock()
		if selfSend > 0 {
			out.Violate("C17", "node_forwarded_to_itself", "route.Router.processEvent", "%d requests were sent by a node to its own peer address", selfSend)
		}
		for _, re := range evs {
			mk := re.ev.marker
			hs, ps := hnyBy[mk], peerBy[mk]
			desc := fmt.Sprintf("event %s (entry n%d, owner n%d, trace=%v probe=%v, %s/%s, peer-listener=%v)", mk, re.entry, re.owner, re.ev.traceID != "", re.ev.probe, re.req.endpoint, re.req.enc, re.req.peer)
			if !re.req.finished || re.req.resp.status() != 200 {
				out.Violate("C19", "well_formed_request_not_accepted", "route.Router", "%s: response status %v finished=%v body=%s", desc, re.req.resp.statuses, re.req.finished, re.req.resp.body.String())
				continue
			}
			if re.req.peer {
				out.Probe("event_on_peer_listener")
			}
			switch {
			case re.ev.probe:
				out.Probe("probe_discarded")
				if len(hs) > 0 || len(ps) > 0 {
					out.Violate("C19", "probe_not_discarded", "route.Router.processEvent", "%s: reached Honeycomb %d times and peers %d times", desc, len(hs), len(ps))
				}
			case re.ev.traceID == "":
				out.Probe("non_trace_event_direct")
				if len(ps) > 0 {
					out.Violate("C19", "non_trace_event_sent_to_peer", "route.Router.processEvent", "%s was forwarded to a peer", desc)
				}
				if len(hs) != 1 {
					out.Violate("C19", "non_trace_event_not_sent_exactly_once", "route.Router.processEvent", "%s reached Honeycomb %d times", desc, len(hs))
				} else {
					h := hs[0]
					if h.from != fmt.Sprintf("n%d", re.entry) {
						out.Violate("C19", "non_trace_event_wrong_route", "route.Router.processEvent", "%s was sent to Honeycomb by %s", desc, h.from)
					}
					if int(h.rate) != re.ev.rate || h.apiKey != re.req.apiKey || h.dataset != re.req.dataset {
						out.Violate("C19", "non_trace_event_altered", "route.Router.processEvent", "%s arrived with rate=%d key=%q dataset=%q", desc, h.rate, h.apiKey, h.dataset)
					}
					if _, has := h.data["meta.refinery.final_sample_rate"]; has {
						out.Violate("C19", "non_trace_event_was_sampled", "route.Router.processEvent", "%s carries sampling metadata: %v", desc, h.data)
					}
				}
			default:
				// a span: exactly one collector, the owner's; at most one hop
				if re.entry == re.owner {
					out.Probe("span_owned_by_entry_node")
					if len(ps) != 0 {
						out.Violate("C17", "owned_span_forwarded", "route.Router.processEvent", "%s was forwarded to %s although the entry node owns the trace", desc, ps[0].to)
					}
				} else {
					out.Probe("span_forwarded_one_hop")
					if len(ps) != 1 {
						var tos []string
						for _, d := range ps {
							tos = append(tos, d.from+"->"+d.to)
						}
						kind := "span_not_forwarded_to_owner"
						if len(ps) > 1 {
							kind = "span_crossed_more_than_one_hop"
						}
						out.Violate("C17", kind, "route.Router.processEvent", "%s: peer deliveries %v", desc, tos)
					} else {
						d := ps[0]
						if d.to != fmt.Sprintf("n%d", re.owner) {
							out.Violate("C17", "span_forwarded_to_non_owner", "route.Router.processEvent", "%s was forwarded to %s", desc, d.to)
						}
						// C19: forwarded unchanged
						out.Probe("forwarded_content_checked")
						if d.apiKey != re.req.apiKey || d.ds != re.req.dataset || int(d.rate) != re.ev.rate || !d.ts.Equal(re.ev.ts) {
							out.Violate("C19", "forwarded_event_envelope_altered", "route.Router.processEvent", "%s arrived at the peer with key=%q dataset=%q rate=%d time=%v (client: %q %q %d %v)", desc, d.apiKey, d.ds, d.rate, d.ts, re.req.apiKey, re.req.dataset, re.ev.rate, re.ev.ts)
						}
						for k, v := range re.ev.wireFields() {
							if !valuesEqual(v, d.data[k]) {
								out.Violate("C19", "forwarded_event_field_altered", "route.Router.processEvent", "%s: field %q client=%v (%T) peer got %v (%T)", desc, k, v, v, d.data[k], d.data[k])
							}
						}
						for k := range d.data {
							if _, ok := re.ev.wireFields()[k]; !ok && !strings.HasPrefix(k, "meta.") {
								out.Violate("C19", "forwarded_event_field_added", "route.Router.processEvent", "%s: peer got extra field %q=%v", desc, k, d.data[k])
							}
						}
					}
				}
				// the owner's collector handled it: with the keep-everything sampler it reaches Honeycomb once, from the owner
				if len(hs) != 1 {
					out.Violate("C19", "span_not_handled_exactly_once", "route.Router.processEvent", "%s reached Honeycomb %d times", desc, len(hs))
				} else if hs[0].from != fmt.Sprintf("n%d", re.owner) {
					out.Violate("C17", "span_collected_by_non_owner", "route.Router.processEvent", "%s was decided and sent by %s", desc, hs[0].from)
				}
			}
		}
		for mk, hs := range hnyBy {
			known := false
			for _, re := range evs {
				if re.ev.marker == mk {
					known = true
				}
			}
			if !known {
				out.Violate("C19", "unknown_event_at_honeycomb", "route.Router", "Honeycomb received marker %q (%d times) that no client sent", mk, len(hs))
			}
		}
		keysOf := map[string]map[string]bool{}
		for _, re := range evs {
			if keysOf[re.req.dataset] == nil {
				keysOf[re.req.dataset] = map[string]bool{}
			}
			keysOf[re.req.dataset][re.req.apiKey] = true
		}
		for _, ks := range keysOf {
			if len(ks) > 1 {
				out.Probe("two_api_keys_one_dataset")
			}
		}
		var log []string
		for _, re := range evs {
			log = append(log, fmt.Sprintf("%s entry=n%d owner=n%d hny=%d peer=%d", re.ev.marker, re.entry, re.owner, len(hnyBy[re.ev.marker]), len(peerBy[re.ev.marker])))
		}
		sort.Strings(log)
		out.Log = append(out.Log, log...)
		for _, n := range w.nodes {
			n.shutdown()
		}
		w.drv.Settle()
		if p.Check == "C17" {
			sharderOnly(p, out)
		}
	})
	if pt != "" && out.Harness == "" {
		out.Harness = "panic: " + pt
	}
	return out
}

// sharderOnly: peer lists of up to 50 addresses, every "node" seeing them in
// its own order, must agree on the owner of every trace ID.
func sharderOnly(p *Plan, out *Outcome) {
	r := NewRng(H(p.Seed, "sharder-only"))
	n := PickOf(r, 1, 2, 3, 5, 8, 13, 21, 34, 50)
	var addrs []string
	for i := 0; i < n; i++ {
		addrs = append(addrs, fmt.Sprintf("http://10.%d.%d.%d:8081", r.Intn(3), r.Intn(256), i))
	}
	views := PickOf(r, 2, 3, 5)
	newAddr := func() string {
		return fmt.Sprintf("http://10.%d.%d.%d:8081", r.Intn(3), r.Intn(256), 100+r.Intn(100))
	}
	var shs []*sharder.DeterministicSharder
	for v := 0; v < views; v++ {
		list := append([]string(nil), addrs...)
		sort.Slice(list, func(a, b int) bool { return H(p.Seed, "view", v, list[a]) < H(p.Seed, "view", v, list[b]) })
		self := list[r.Intn(len(list))]
		// every view but the first reaches the list through its own history of
		// membership changes: it starts on another list and is told of each change
		hist := [][]string{}
		if v > 0 {
			cur := append([]string(nil), list...)
			for k := r.Intn(4); k > 0; k-- {
				prev := append([]string(nil), cur...)
				switch r.Intn(3) {
				case 0: // one peer replaced by another: same size
					i := r.Intn(len(prev))
					if prev[i] != self {
						prev[i] = newAddr()
						out.Probe("sharder_same_size_replacement")
					}
				case 1: // one more
					prev = append(prev, newAddr())
				default: // one fewer
					if i := r.Intn(len(prev)); len(prev) > 1 && prev[i] != self {
						prev = append(prev[:i], prev[i+1:]...)
					}
				}
				hist = append([][]string{prev}, hist...)
				cur = prev
			}
		}
		hist = append(hist, list)
		mp := peer.NewMockPeers(hist[0], self)
		sh := &sharder.DeterministicSharder{Config: &config.MockConfig{}, Logger: &logger.NullLogger{}, Peers: mp}
		if err := sh.Start(); err != nil {
			out.Harness = "sharder start: " + err.Error()
			return
		}
		for _, l := range hist[1:] {
			mp.UpdatePeers(l)
			out.Probe("sharder_after_membership_history")
		}
		shs = append(shs, sh)
	}
	in := map[string]bool{}
	for _, a := range addrs {
		in[a] = true
	}
	for k := 0; k < 64; k++ {
		tid := fmt.Sprintf("%032x", H(p.Seed, "tid", k))
		if k%8 == 0 {
			tid = PickOf(r, "", "a", "0000000000000000", strings.Repeat("f", 64), "trace with spaces", "\x00\x01")
		}
		first := shs[0].WhichShard(tid).GetAddress()
		if !in[first] {
			out.Violate("C17", "owner_not_a_peer", "sharder.DeterministicSharder", "%d peers: owner %q of trace %q is not in the list", n, first, tid)
		}
		for v, sh := range shs[1:] {
			if a := sh.WhichShard(tid).GetAddress(); a != first {
				out.Violate("C17", "nodes_disagree_on_owner", "sharder.DeterministicSharder", "%d peers: view 0 says %s, view %d says %s for trace %q", n, first, v+1, a, tid)
			}
		}
	}
	out.Probe("sharder_only_lists_checked")
}
