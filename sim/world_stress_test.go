//go:build verif

package verifsim

import (
	"fmt"
	"math"
	"sort"
	"strconv"
	"strings"
	"testing"
	"time"

	"github.com/honeycombio/refinery/collect"
	"github.com/honeycombio/refinery/config"
	"github.com/honeycombio/refinery/internal/peer"
	"github.com/honeycombio/refinery/logger"
	"github.com/honeycombio/refinery/metrics"
)

// C15: stress relief switches with hysteresis on a bounded stress level.
//
// Real: collect.StressRelief (its 100ms Recalc loop on a SimClock ticker, the
// pub/sub callback, UpdateFromConfig), metrics.MultiMetrics (the readings it
// computes the level from and the gauges it reports).
// Reference model written from the statement: level = max(own, RMS of recent
// non-zero reports); monitor: on when level >= activation, off only when level <
// deactivation and MinimumActivationDuration has passed since it was last >=
// deactivation; never/always fixed.

func init() {
	Register(&Check{
		ID: "C15", World: "E/stress-relief", Gen: genStress, Run: runStress,
		OwnProbes: []string{"activated", "deactivated_after_hold", "held_on_by_min_duration", "peer_report_expired", "mode_reload", "cluster_level_above_own", "report_landed_inside_recalc"},
		Real:      []string{"collect.StressRelief (Recalc loop, onStressLevelUpdate, UpdateFromConfig, clusterStressLevel)", "metrics.MultiMetrics"},
		Stub:      []string{"pubsub (SimPubSub: peer reports are injected and delivered as scheduler steps)", "peers (MockPeers, instance id only)", "health (recorder double)", "config (MockConfig)", "clock (SimClock)"},
	})
}

type nullRecorder struct{}

func (nullRecorder) Register(string, time.Duration) {}
func (nullRecorder) Unregister(string)              {}
func (nullRecorder) Ready(string, bool)             {}

func genStress(r *Rng, tier string, p *Plan) {
	act := int64(PickOf(r, 50, 75, 90))
	deact := act - int64(PickOf(r, 5, 25, 40))
	p.N["act"] = act
	p.N["deact"] = deact
	p.N["mindur_us"] = PickOf(r, int64(0), 300_000, 1_000_000, 2_500_000)
	p.S["mode"] = PickOf(r, "monitor", "monitor", "monitor", "always", "never")
	n := r.Range(4, 25)
	if tier == "thorough" {
		n = r.Range(4, 70)
	}
	now := int64(0)
	for i := 0; i < n; i++ {
		now += PickOf(r, int64(0), 30_000, 100_000, 100_000, 250_000, 1_000_000, 2_500_000, 10_000_000, 10_100_000) + r.I64n(3)*1000
		switch r.Intn(10) {
		case 0, 1, 2, 3:
			// own readings: ratio in per-mille of capacity
			p.Add(Op{K: "metric", At: now, S: PickOf(r, "in", "peer", "mem"), N: PickOf(r, int64(0), 10, 100, 250, 400, 560, 640, 810, 900, 1000, 1500)})
		case 4, 5, 6:
			switch r.Intn(8) {
			case 0:
				// the report lands in the middle of the next recalculation
				p.Add(Op{K: "report_during_recalc", At: now, S: PickOf(r, "p1", "p2", "p3"), N: PickOf(r, int64(20), 50, 70, 80, 95, 100)})
			case 1:
				// a message that cannot be understood, naming a peer
				p.Add(Op{K: "garbage", At: now, S: PickOf(r, "p1", "p2", "p3"), T: PickOf(r, "|", "|9x", "", "|1e3", "| 7", "|7|", "|0x10")})
			default:
				p.Add(Op{K: "report", At: now, S: PickOf(r, "p1", "p2", "p3"), N: PickOf(r, int64(0), 1, 20, 50, 70, 80, 95, 100)})
			}
		case 7:
			p.Add(Op{K: "reload", At: now, S: "mode", T: PickOf(r, "monitor", "monitor", "always", "never")})
		case 8:
			p.Add(Op{K: "reload", At: now, S: "act", N: int64(PickOf(r, 50, 75, 90))})
		default:
			p.Add(Op{K: "reload", At: now, S: "mindur", N: PickOf(r, int64(0), 300_000, 1_000_000, 2_500_000)})
		}
	}
	p.N["cluster_name"] = int64(PickOf(r, 0, 0, 1))
}

type peerRep struct {
	level uint
	at    time.Time
}

func runStress(t *testing.T, p *Plan) *Outcome {
	out := NewOutcome()
	pt := InBubble(t, func() {
		clk := NewSimClock("n0")
		drv := NewDriver(out, p.Seed, clk)
		bus := NewSimBus(drv, out, p.Seed)
		bus.Prefix = clusterPrefix(p)
		cfg := &config.MockConfig{StressRelief: config.StressReliefConfig{
			Mode: p.S["mode"], ActivationLevel: uint(p.N["act"]), DeactivationLevel: uint(p.N["deact"]),
			SamplingRate: 10, MinimumActivationDuration: config.Duration(us(p.N["mindur_us"])),
		}}
		mm := metrics.NewMultiMetrics()
		mm.Config = cfg
		mm.Start()
		for _, n := range []string{collect.NUMERATOR_INCOMING_QUEUE, collect.NUMERATOR_PEER_QUEUE, collect.NUMERATOR_MEMORY_HEAP_ALLOC} {
			mm.Register(metrics.Metadata{Name: n, Type: metrics.Gauge})
		}
		mm.Store(collect.DENOMINATOR_INCOMING_CAP, 1000)
		mm.Store(collect.DENOMINATOR_PEER_CAP, 1000)
		mm.Store(collect.DENOMINATOR_MEMORY_MAX_ALLOC, 1000)
		ep := bus.Endpoint("n0")
		hclk := &hookClock{Clock: clk}
		sr := &collect.StressRelief{RefineryMetrics: mm, Config: cfg, Logger: &logger.NullLogger{}, Health: nullRecorder{},
			PubSub: ep, Peer: peer.NewMockPeers([]string{"n0"}, "n0"), Clock: hclk, Done: make(chan struct{})}
		var duringRecalc []string // messages to deliver inside the next recalculation
		if err := sr.Start(); err != nil {
			out.Harness = err.Error()
			return
		}
		sr.UpdateFromConfig()
		drv.Settle()
		topic := ep.FormatTopic("refinery-stress-relief")
		bus.Expect = map[string][]string{topic: {"n0"}}
		const site = "collect.StressRelief"

		// ---- reference model
		reports := map[string]peerRep{}
		mode := p.S["mode"]
		act, deact := uint(p.N["act"]), uint(p.N["deact"])
		minDurs := []time.Duration{us(p.N["mindur_us"])} // durations in force since the level was last >= deactivation
		stressed := false
		var lastAbove time.Time
		haveAbove := false
		bus.OnDeliver = func(to, tp, msg string) {
			if tp != topic {
				return
			}
			parts := strings.SplitN(msg, "|", 2)
			if len(parts) != 2 || parts[0] == "n0" {
				return
			}
			lvl, err := strconv.Atoi(parts[1])
			if err != nil || lvl < 0 {
				return // a message that cannot be understood says nothing about the peer
			}
			reports[parts[0]] = peerRep{uint(lvl), time.Now()}
		}
		get := func(name string) float64 {
			v, _ := mm.Get(name)
			return v
		}
		afterRecalc := func() {
			now := time.Now()
			own := uint(get("individual_stress_level"))
			cluster := uint(get("cluster_stress_level"))
			level := uint(get("stress_level"))
			activated := get("stress_relief_activated") == 1
			sNow := sr.Stressed()
			// candidate RMS values
			var sure, maybe []uint
			maxAll := own
			allLE100 := own <= 100
			names := make([]string, 0, len(reports))
			for n := range reports {
				names = append(names, n)
			}
			sort.Strings(names)
			for _, n := range names {
				r := reports[n]
				age := now.Sub(r.at)
				if age > peer.PeerEntryTimeout {
					out.Probe("peer_report_expired")
					delete(reports, n)
					continue
				}
				if r.level == 0 {
					continue
				}
				if r.level > 100 {
					allLE100 = false
				}
				if r.level > maxAll {
					maxAll = r.level
				}
				if age == peer.PeerEntryTimeout {
					maybe = append(maybe, r.level)
				} else {
					sure = append(sure, r.level)
				}
			}
			cands := map[uint]bool{}
			for mask := 0; mask < 1<<len(maybe); mask++ {
				for _, withOwn := range []bool{false, true} {
					var tot float64
					n := 0
					for _, l := range sure {
						tot += float64(l * l)
						n++
					}
					for i, l := range maybe {
						if mask&(1<<i) != 0 {
							tot += float64(l * l)
							n++
						}
					}
					if withOwn && own > 0 {
						tot += float64(own * own)
						n++
					}
					if n == 0 {
						cands[0] = true
					} else {
						cands[uint(math.Sqrt(tot/float64(n)))] = true
					}
				}
			}
			out.Logf("recalc t=%v own=%d cluster=%d level=%d stressed=%v mode=%s reports=%v", now.Sub(drv.Start), own, cluster, level, sNow, mode, reports)
			if !cands[cluster] {
				out.Violate("C15", "cluster_level_not_rms_of_recent_reports", site, "t=%v: cluster level %d is not the RMS of the recent non-zero reports %v (own=%d, with or without own; candidates %v)", now.Sub(drv.Start), cluster, reports, own, cands)
			}
			want := cluster
			if own > want {
				want = own
			}
			if cluster > own {
				out.Probe("cluster_level_above_own")
			}
			if level != want {
				out.Violate("C15", "level_not_max_of_own_and_cluster", site, "t=%v: level acted on %d, own %d, cluster %d", now.Sub(drv.Start), level, own, cluster)
			}
			if level < own || level > maxAll {
				out.Violate("C15", "level_out_of_bounds", site, "t=%v: level %d outside [own=%d, max report=%d]", now.Sub(drv.Start), level, own, maxAll)
			}
			if allLE100 && level > 100 {
				out.Violate("C15", "level_above_100", site, "t=%v: level %d although every report is <= 100", now.Sub(drv.Start), level)
			}
			if activated != sNow {
				out.Violate("C15", "activated_gauge_disagrees", site, "t=%v: stress_relief_activated gauge=%v but Stressed()=%v", now.Sub(drv.Start), activated, sNow)
			}
			// state machine
			switch mode {
			case "never":
				if sNow {
					out.Violate("C15", "on_in_never_mode", site, "t=%v: Stressed()=true in never mode", now.Sub(drv.Start))
				}
			case "always":
				if !sNow {
					out.Violate("C15", "off_in_always_mode", site, "t=%v: Stressed()=false in always mode", now.Sub(drv.Start))
				}
			case "monitor":
				if !stressed && sNow {
					out.Probe("activated")
					if level < act {
						out.Violate("C15", "activated_below_activation_level", site, "t=%v: relief switched on at level %d < ActivationLevel %d", now.Sub(drv.Start), level, act)
					}
				}
				if !sNow && level >= act {
					out.Violate("C15", "not_activated_at_activation_level", site, "t=%v: level %d >= ActivationLevel %d but relief is off", now.Sub(drv.Start), level, act)
				}
				if stressed && !sNow {
					if level >= deact {
						out.Violate("C15", "deactivated_at_or_above_deactivation_level", site, "t=%v: relief switched off at level %d >= DeactivationLevel %d", now.Sub(drv.Start), level, deact)
					}
					if haveAbove {
						min := minDurs[0]
						for _, d := range minDurs {
							if d < min {
								min = d
							}
						}
						if now.Sub(lastAbove) < min {
							out.Violate("C15", "deactivated_before_minimum_duration", site, "t=%v: relief switched off %v after the level was last >= DeactivationLevel (%d), MinimumActivationDuration %v", now.Sub(drv.Start), now.Sub(lastAbove), deact, min)
						}
						out.Probe("deactivated_after_hold")
					}
				}
				if stressed && sNow && level < deact {
					out.Probe("held_on_by_min_duration")
				}
			}
			stressed = sNow
			if level >= deact {
				lastAbove, haveAbove = now, true
				minDurs = minDurs[len(minDurs)-1:]
			}
		}
		drv.BeforeTick = func(tk *SimTicker) {
			if !strings.Contains(tk.Key, "StressRelief") || len(duringRecalc) == 0 {
				return
			}
			msgs := duringRecalc
			duringRecalc = nil
			// the recalculation reads the clock once before it looks at the reports
			// it holds: the reports land there, each on its subscriber goroutine,
			// and have been taken in (or wait for the lock) when the clock answers
			hclk.hook = func() {
				for _, m := range msgs {
					ids, dones := bus.DeliverNow(strings.SplitN(m, "|", 2)[0], topic, m)
					for i := range ids {
						awaitGoroutine(ids[i], dones[i])
					}
				}
				out.Probe("report_landed_inside_recalc")
			}
		}
		drv.AfterTick = func(tk *SimTicker, delivered bool) {
			if delivered && strings.Contains(tk.Key, "StressRelief") {
				hclk.hook = nil
				afterRecalc()
			}
		}
		var last int64
		for _, op := range p.Ops {
			op := op
			if op.At > last {
				last = op.At
			}
			drv.AtSig(us(op.At), op.K, fmt.Sprintf("op/%d", op.ID), op.S, func() {
				switch op.K {
				case "metric":
					name := map[string]string{"in": collect.NUMERATOR_INCOMING_QUEUE, "peer": collect.NUMERATOR_PEER_QUEUE, "mem": collect.NUMERATOR_MEMORY_HEAP_ALLOC}[op.S]
					mm.Gauge(name, float64(op.N))
				case "report":
					bus.Inject(op.S, topic, fmt.Sprintf("%s|%d", op.S, op.N))
				case "report_during_recalc":
					duringRecalc = append(duringRecalc, fmt.Sprintf("%s|%d", op.S, op.N))
				case "garbage":
					out.Fault("unparseable_stress_message")
					bus.Inject(op.S, topic, op.S+op.T)
				case "reload":
					cfg.Mux.Lock()
					switch op.S {
					case "mode":
						cfg.StressRelief.Mode = op.T
						if op.T != mode {
							out.Probe("mode_reload")
							// the hold-on bookkeeping of the statement is about monitor mode;
							// what happened under another mode is not "last at or above it" for it.
							// The on/off state carries over until the next recalculation.
							haveAbove = false
						}
						mode = op.T
					case "act":
						if uint(op.N) > deact {
							cfg.StressRelief.ActivationLevel = uint(op.N)
							act = uint(op.N)
						}
					case "mindur":
						cfg.StressRelief.MinimumActivationDuration = config.Duration(us(op.N))
						minDurs = append(minDurs, us(op.N))
					}
					cfg.Mux.Unlock()
					sr.UpdateFromConfig()
				}
			})
		}
		drv.Run(us(last) + 3*time.Second)
		close(sr.Done)
		drv.Settle()
	})
	if pt != "" && out.Harness == "" {
		out.Harness = "panic: " + pt
	}
	return out
}
