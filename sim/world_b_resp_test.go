//go:build verif

package verifsim

import (
	"bytes"
	"encoding/json"
	"fmt"
	"net/http"
	"sort"
	"strings"
	"testing"
	"time"

	collogs "go.opentelemetry.io/proto/otlp/collector/logs/v1"
	coltrace "go.opentelemetry.io/proto/otlp/collector/trace/v1"
	commonpb "go.opentelemetry.io/proto/otlp/common/v1"
	logspb "go.opentelemetry.io/proto/otlp/logs/v1"
	respb "go.opentelemetry.io/proto/otlp/resource/v1"
	tracepb "go.opentelemetry.io/proto/otlp/trace/v1"
	"google.golang.org/protobuf/proto"

	"github.com/honeycombio/refinery/config"
)

// C23: responses reflect what happened to the data. World B (1-3 nodes).
// Every event carries a unique marker; keep-everything sampler, so "was
// processed" is visible as "reached the fake Honeycomb".

func init() {
	Register(&Check{ID: "C23", World: "B/cluster",
		// a fifth of the runs are stress-relief plans: a span answered with success
		// while relief starts on its node must not vanish
		Gen: func(r *Rng, tier string, p *Plan) {
			if r.Bool(0.2) {
				p.N["stressb"] = 1
				genStressB(r, tier, p)
				return
			}
			genResp(r, tier, p)
		},
		Run: func(t *testing.T, p *Plan) *Outcome {
			if p.On("stressb") {
				return runStressB(t, p)
			}
			return runResp(t, p)
		},
		Real: bReal, Stub: bStub,
		OwnProbes: []string{"env_lookup_failed", "env_lookup_timeout", "body_read_error", "malformed_body", "queue_full_429", "otlp_traces", "otlp_logs", "invalid_event_in_batch", "whole_request_error_checked", "compressed_body", "undecodable_compressed_body", "request_overlaps_slow_lookup"}})
}

func genResp(r *Rng, tier string, p *Plan) {
	park := r.Bool(0.3)
	nodes := PickOf(r, 1, 1, 2, 3)
	if park {
		nodes = 1
		p.N["in_queue"] = int64(PickOf(r, 1, 2, 3))
	}
	p.N["nodes"] = int64(nodes)
	p.N["workers"] = 1
	n := r.Range(2, 10)
	if tier == "thorough" {
		n = r.Range(2, 30)
	}
	now := int64(0)
	mk := 0
	authMode := "ok"
	slowNext := false
	lastAt := int64(0)
	if park {
		p.Add(Op{K: "park", At: 50_000})
	}
	for i := 0; i < n; i++ {
		now += PickOf(r, int64(100_000), 100_000, 300_000, 1_000_000)
		kind := PickOf(r, "batch", "batch", "batch", "event", "otlp_traces", "otlp_logs")
		if park {
			kind = PickOf(r, "batch", "batch", "event", "otlp_traces", "otlp_logs")
		}
		op := Op{K: "req", At: now, I: int64(r.Intn(nodes)), T: kind, S: PickOf(r, "json", "msgpack")}
		op.J = int64(r.Range(1, 4)) // events in the request
		if kind == "event" {
			op.J = 1
		}
		op.N = int64(mk) // first marker number
		mk += int(op.J)
		// key: legacy (no lookup) or a fresh environment key (needs /1/auth)
		if r.Bool(0.5) {
			op.M = 1 // environment key
		}
		// fault for this request
		switch r.Intn(12) {
		case 0:
			op.B = true // reuse B as "body read error"
		case 1:
			op.M |= 2 // malformed body
		case 2:
			op.M |= 4 // one invalid (empty) event in a batch
		}
		// how the body travels
		if kind == "batch" || kind == "event" {
			switch r.Intn(10) {
			case 0, 1:
				op.M |= 8 // zstd
			case 2:
				op.M |= 16 // zstd that does not decode
			case 3:
				op.M |= 32 // gzip
			}
		}
		if slowNext {
			// lands while the previous request (environment key, slow lookup) is in
			// progress: a legacy key, so that it does not wait for that lookup
			op.M &^= 1
			op.At = now - PickOf(r, int64(100_000), 100_000, 300_000, 1_000_000) + 100_000
			if op.At <= lastAt {
				op.At = lastAt + 50_000
			}
			slowNext = false
		}
		if authMode == "slow" && op.M&1 != 0 && !park && r.Bool(0.5) {
			// just before a request that will be in progress for a while (slow lookup):
			// a request whose compressed body cannot be read to the end, or does not
			// decode - whatever that leaves behind meets the two overlapping requests
			pre := Op{K: "req", At: op.At - 40_000, I: op.I, T: "batch", S: "json", J: 1, N: int64(mk)}
			mk++
			if r.Bool(0.5) {
				pre.M = 16
			} else {
				pre.M, pre.B = 8, true
			}
			if pre.At > lastAt {
				p.Add(pre)
			}
		}
		lastAt = op.At
		p.Add(op)
		if authMode == "slow" && op.M&1 != 0 {
			slowNext = true
		}
		if authMode == "timeout" && op.M&1 != 0 {
			// the lookup hangs for the client's 10s timeout while holding the
			// environment cache's mutex; a second request on that cache would
			// wait on a sync.Mutex, which a synctest bubble cannot see as idle.
			// Keep the window free of requests.
			now += 11_000_000
		}
		// auth mode changes
		if r.Bool(0.35) {
			authMode = PickOf(r, "ok", "ok", "slow", "slow", "fail", "unauthorized", "timeout", "flaky", "flaky")
			p.Add(Op{K: "auth", At: now + 50_000, S: authMode})
		}
	}
	if park {
		p.Add(Op{K: "unpark", At: now + 500_000})
	}
	// A lookup that takes a while holds the environment cache's mutex for that
	// long; a second lookup on the same node meanwhile waits on that mutex, which
	// a bubble cannot see as idle (the run would never end). Client requests are
	// spaced accordingly above; forwards between nodes cannot be, so plans with
	// slow lookups run on one node.
	for _, op := range p.Ops {
		if op.K == "auth" && op.S == "slow" && nodes > 1 {
			p.N["nodes"] = 1
			for i := range p.Ops {
				if p.Ops[i].K == "req" {
					p.Ops[i].I = 0
				}
			}
			break
		}
	}
	p.N["api_slash"] = int64(PickOf(r, 0, 0, 0, 1))
	p.N["env_ttl_us"] = PickOf(r, int64(1000), 0, 0)
	if park {
		// with two workers only the first is parked: within one request some
		// events meet a full queue and later ones a free one
		p.N["workers"] = int64(PickOf(r, 1, 1, 2))
	}
	p.SortOps()
}

type respReq struct {
	droppedBefore, droppedAfter float64 // the router's "dropped because the queue was full" counter around the request
	op                          Op
	req                         *bRequest
	kind                        string
	markers                     []string
	invalid                     map[string]bool
	raw                         *http.Request // for OTLP
	envKey                      bool
}

func otlpTraceBody(markers []string, seed uint64, first int) []byte {
	var spans []*tracepb.Span
	for i, mk := range markers {
		tid := make([]byte, 16)
		h := H(seed, "otlp-trace", first+i)
		for b := 0; b < 8; b++ {
			tid[b] = byte(h >> (8 * b))
			tid[8+b] = byte(i + 1)
		}
		sid := []byte{1, 2, 3, 4, 5, 6, 7, byte(i + 1)}
		spans = append(spans, &tracepb.Span{TraceId: tid, SpanId: sid, Name: "otlp-" + mk, StartTimeUnixNano: 1700000000_000000000, EndTimeUnixNano: 1700000001_000000000,
			Attributes: []*commonpb.KeyValue{{Key: "mk", Value: &commonpb.AnyValue{Value: &commonpb.AnyValue_StringValue{StringValue: mk}}}}})
	}
	res := func(name string) *respb.Resource {
		return &respb.Resource{Attributes: []*commonpb.KeyValue{{Key: "service.name", Value: &commonpb.AnyValue{Value: &commonpb.AnyValue_StringValue{StringValue: name}}}}}
	}
	req := &coltrace.ExportTraceServiceRequest{}
	if H(seed, "otlp-resources", first)%2 == 0 {
		// every span under a resource entry of its own. (The same service name: a
		// name per entry would mean a dataset per entry, hence concurrent forwards
		// under one API key, whose lookups wait for each other on a sync mutex -
		// a wait a synctest bubble cannot see as idle.)
		for _, sp := range spans {
			req.ResourceSpans = append(req.ResourceSpans, &tracepb.ResourceSpans{Resource: res("svc"), ScopeSpans: []*tracepb.ScopeSpans{{Spans: []*tracepb.Span{sp}}}})
		}
	} else {
		req.ResourceSpans = []*tracepb.ResourceSpans{{Resource: res("svc"), ScopeSpans: []*tracepb.ScopeSpans{{Spans: spans}}}}
	}
	b, _ := proto.Marshal(req)
	return b
}

func otlpLogsBody(markers []string, seed uint64, first int) []byte {
	var recs []*logspb.LogRecord
	for i, mk := range markers {
		rec := &logspb.LogRecord{TimeUnixNano: 1700000000_000000000, Body: &commonpb.AnyValue{Value: &commonpb.AnyValue_StringValue{StringValue: "log " + mk}},
			Attributes: []*commonpb.KeyValue{{Key: "mk", Value: &commonpb.AnyValue{Value: &commonpb.AnyValue_StringValue{StringValue: mk}}}}}
		// two log records in three belong to a trace (they go through the collector
		// like spans; the others go straight to Honeycomb)
		if h := H(seed, "otlp-log", first+i); h%3 != 0 {
			tid := make([]byte, 16)
			for b := 0; b < 8; b++ {
				tid[b] = byte(h >> (8 * b))
				tid[8+b] = byte(i + 1)
			}
			rec.TraceId, rec.SpanId = tid, []byte{9, 2, 3, 4, 5, 6, 7, byte(i + 1)}
		}
		recs = append(recs, rec)
	}
	res := func(name string) *respb.Resource {
		return &respb.Resource{Attributes: []*commonpb.KeyValue{{Key: "service.name", Value: &commonpb.AnyValue{Value: &commonpb.AnyValue_StringValue{StringValue: name}}}}}
	}
	req := &collogs.ExportLogsServiceRequest{}
	if H(seed, "otlp-resources", first)%2 == 0 {
		for _, rec := range recs {
			req.ResourceLogs = append(req.ResourceLogs, &logspb.ResourceLogs{Resource: res("svc"), ScopeLogs: []*logspb.ScopeLogs{{LogRecords: []*logspb.LogRecord{rec}}}})
		}
	} else {
		req.ResourceLogs = []*logspb.ResourceLogs{{Resource: res("svc"), ScopeLogs: []*logspb.ScopeLogs{{LogRecords: recs}}}}
	}
	b, _ := proto.Marshal(req)
	return b
}

func runResp(t *testing.T, p *Plan) *Outcome {
	out := NewOutcome()
	pt := InBubble(t, func() {
		inq := int(p.Get("in_queue", 1000))
		w := newWorldB(p, out, bOpts{
			nodes: int(p.N["nodes"]), peerType: "file", workers: int(p.N["workers"]),
			traceTimeout: 300 * time.Millisecond, sendDelay: 50 * time.Millisecond, sendTicker: 20 * time.Millisecond,
			batchTimeout: 20 * time.Millisecond, maxBatch: 50, stressMode: "never", inQueue: inq,
			sampler: &config.DeterministicSamplerConfig{SampleRate: 1}, samplerName: "DeterministicSampler", shuffleSeed: p.Seed,
		})
		for _, n := range w.nodes {
			// every request looks its key up again; with 0 (legal) nothing is ever
			// served from the cache, not even within one request
			n.cfg.EnvironmentCacheTTL = us(p.Get("env_ttl_us", 1000))
			if err := n.startNode(); err != nil {
				out.Harness = fmt.Sprintf("node %s: %v", n.name, err)
				return
			}
		}
		w.drv.Settle()
		var reqs []*respReq
		var last int64
		parked := false
		for _, op := range p.Ops {
			op := op
			if op.At > last {
				last = op.At
			}
			switch op.K {
			case "auth":
				w.drv.At(us(op.At), "auth", fmt.Sprintf("op/%d", op.ID), func() {
					w.mu.Lock()
					w.authMode = op.S
					w.mu.Unlock()
				})
			case "park":
				w.drv.At(us(op.At), "park", fmt.Sprintf("op/%d", op.ID), func() {
					w.nodes[0].tr.Park("collect_worker/0")
					parked = true
					out.Fault("park_collect_worker")
				})
			case "unpark":
				w.drv.At(us(op.At), "unpark", fmt.Sprintf("op/%d", op.ID), func() {
					w.nodes[0].tr.Release("collect_worker/0")
					parked = false
				})
			case "req":
				if int(op.I) >= len(w.nodes) {
					continue
				}
				rr := &respReq{op: op, kind: op.T, invalid: map[string]bool{}, envKey: op.M&1 != 0}
				key := legacyKey
				if rr.envKey {
					key = fmt.Sprintf("hcxik_%058d", op.ID) // 64 chars, environment-scoped ingest key shape
				}
				for i := 0; i < int(op.J); i++ {
					rr.markers = append(rr.markers, fmt.Sprintf("m%d", int(op.N)+i))
				}
				switch op.T {
				case "batch", "event":
					var evs []*bEvent
					for i, mk := range rr.markers {
						ev := &bEvent{marker: mk, traceID: traceIDFor(p.Seed, int(op.N)+i), root: true, rate: 1, ts: time.Unix(1700000000, 0).UTC()}
						if op.M&4 != 0 && i == 0 && op.T == "batch" {
							ev.invalid = true
							rr.invalid[mk] = true
						}
						evs = append(evs, ev)
					}
					rr.req = &bRequest{id: op.ID, node: int(op.I), endpoint: op.T, enc: op.S, apiKey: key, dataset: "ds", events: evs, bodyErr: op.B, garbage: op.M&2 != 0, compress: map[int64]string{8: "zstd", 16: "zstd_bad", 32: "gzip"}[op.M&56]}
				default:
					var body []byte
					path := "/v1/traces"
					if op.T == "otlp_logs" {
						body = otlpLogsBody(rr.markers, p.Seed, int(op.N))
						path = "/v1/logs"
					} else {
						body = otlpTraceBody(rr.markers, p.Seed, int(op.N))
					}
					if op.M&2 != 0 {
						body = []byte("\xff\xff not protobuf")
					}
					hreq, _ := http.NewRequest("POST", "http://refinery.sim"+path, bytes.NewReader(body))
					if op.B {
						hreq.Body = &errReader{r: bytes.NewReader(body[:len(body)/2])}
					}
					hreq.Header.Set("Content-Type", "application/protobuf")
					hreq.Header.Set("X-Honeycomb-Team", key)
					hreq.Header.Set("X-Honeycomb-Dataset", "ds")
					hreq.RemoteAddr = "client:1"
					rr.raw = hreq
					rr.req = &bRequest{id: op.ID, node: int(op.I)}
				}
				reqs = append(reqs, rr)
				w.drv.AtSig(us(op.At), "request", fmt.Sprintf("op/%d", op.ID), fmt.Sprintf("%d/%s/%d", op.I, op.T, op.M), func() {
					rr.droppedBefore, _ = w.nodes[rr.req.node].mm.Get("incoming_router_dropped")
					if rr.raw != nil {
						n := w.nodes[rr.req.node]
						rr.req.resp = newRespRec()
						rr.req.sentAt = w.drv.Elapsed()
						go func() {
							n.app.IncomingRouter.VerifHandler().ServeHTTP(rr.req.resp, rr.raw)
							w.mu.Lock()
							rr.req.finished = true
							w.mu.Unlock()
						}()
						return
					}
					w.send(rr.req)
				})
			}
		}
		_ = parked
		w.drv.AfterStep = func(kind, ident string) {
			if kind != "request" {
				return
			}
			for _, rr := range reqs {
				if fmt.Sprintf("op/%d", rr.op.ID) == ident {
					rr.droppedAfter, _ = w.nodes[rr.req.node].mm.Get("incoming_router_dropped")
				}
			}
		}
		w.drv.Run(us(last) + 14*time.Second) // an auth lookup may take the 10s client timeout

		// ---- oracle
		w.mu.Lock()
		hnyBy := map[string]int{}
		for _, h := range w.hny {
			hnyBy[h.marker]++
		}
		peerBy := map[string]int{}
		for _, d := range w.peerLog {
			peerBy[d.marker]++
		}
		w.mu.Unlock()
		const site = "route.Router"
		var log []string
		nodeMissing, node429 := map[int]int{}, map[int]int{}
		for _, rr := range reqs {
			r := rr.req
			desc := fmt.Sprintf("request op#%d (%s/%s to n%d, envkey=%v, bodyErr=%v, malformed=%v, events %v)", rr.op.ID, rr.kind, rr.op.S, r.node, rr.envKey, rr.op.B, rr.op.M&2 != 0, rr.markers)
			if !r.finished {
				out.Violate("C23", "request_never_answered", site, "%s has not completed", desc)
				continue
			}
			if len(r.resp.statuses) > 1 {
				out.Violate("C23", "more_than_one_status", site+"."+rr.kind, "%s: the handler wrote statuses %v", desc, r.resp.statuses)
			}
			st := r.resp.status()
			seen := 0
			for _, mk := range rr.markers {
				seen += hnyBy[mk] + peerBy[mk]
			}
			body := r.resp.body.String()
			if !strings.HasPrefix(body, "{") && !strings.HasPrefix(body, "[") {
				body = fmt.Sprintf("<%d bytes, not JSON>", len(body)) // OTLP status messages embed net/http's timeout wording, which varies
				if len(r.resp.body.Bytes()) > 0 {
					body = "<non-JSON body>"
				}
			}
			log = append(log, fmt.Sprintf("op#%d %s status=%v seen=%d body=%.80s", rr.op.ID, rr.kind, r.resp.statuses, seen, body))
			if rr.op.B {
				out.Probe("body_read_error")
			}
			if rr.op.M&2 != 0 {
				out.Probe("malformed_body")
			}
			if rr.op.M&(8|32) != 0 {
				out.Probe("compressed_body")
			}
			if rr.op.M&16 != 0 {
				out.Probe("undecodable_compressed_body")
			}
			if rr.kind == "otlp_traces" {
				out.Probe("otlp_traces")
			}
			if rr.kind == "otlp_logs" {
				out.Probe("otlp_logs")
			}
			if st >= 400 {
				// (2) whole-request error: nothing of it may have been processed
				out.Probe("whole_request_error_checked")
				if seen > 0 {
					out.Violate("C23", "error_status_but_events_processed", site+"."+rr.kind, "%s was answered %d (%.100s) but %d of its events were forwarded or sent on", desc, st, r.resp.body.String(), seen)
				}
				continue
			}
			// success: (3)/(4)
			switch rr.kind {
			case "batch":
				var resps []struct {
					Status int    `json:"status"`
					Error  string `json:"error"`
				}
				if err := jsonUnmarshalLoose(r.resp.body.Bytes(), &resps); err != nil || len(resps) != len(rr.markers) {
					out.Violate("C23", "batch_response_malformed", site+".batch", "%s: response %q does not list one status per event", desc, r.resp.body.String())
					continue
				}
				for i, mk := range rr.markers {
					got := hnyBy[mk]
					switch {
					case rr.invalid[mk]:
						out.Probe("invalid_event_in_batch")
						if resps[i].Status != 400 {
							out.Violate("C23", "invalid_event_not_400", site+".batch", "%s: event %s is empty but its status is %d", desc, mk, resps[i].Status)
						}
						if got != 0 {
							out.Violate("C23", "invalid_event_processed", site+".batch", "%s: invalid event %s reached Honeycomb", desc, mk)
						}
					case resps[i].Status == 202:
						if got == 0 && peerBy[mk] > 0 && out.Faults["auth_failure"]+out.Faults["auth_unauthorized"]+out.Faults["auth_timeout"] > 0 {
							// forwarded to its owner, whose own environment lookup may have met
							// the injected failure (second hop, after this answer was given)
							out.Probe("loss_exempt_owner_lookup_failed")
							break
						}
						if got != 1 {
							out.Violate("C23", "accepted_event_not_accounted_once", site+".batch", "%s: event %s was answered 202 but reached Honeycomb %d times", desc, mk, got)
						}
					case resps[i].Status == 429:
						out.Probe("queue_full_429")
						node429[r.node]++
						if got != 0 {
							out.Violate("C23", "refused_event_processed", site+".batch", "%s: event %s was answered 429 but reached Honeycomb %d times", desc, mk, got)
						}
					default:
						out.Violate("C23", "valid_event_rejected", site+".batch", "%s: valid event %s got status %d %q", desc, mk, resps[i].Status, resps[i].Error)
					}
				}
			default:
				// single event / OTLP success: every event must at least have been attempted.
				// An attempt refused by a full queue counts (OTLP has no per-event status);
				// the router counts those refusals.
				refused := int(rr.droppedAfter - rr.droppedBefore)
				missing := 0
				for _, mk := range rr.markers {
					if hnyBy[mk] > 1 {
						out.Violate("C23", "accepted_event_not_accounted_once", site+"."+rr.kind, "%s: event %s reached Honeycomb %d times", desc, mk, hnyBy[mk])
					}
					if hnyBy[mk] == 0 {
						if peerBy[mk] > 0 && out.Faults["auth_failure"]+out.Faults["auth_unauthorized"]+out.Faults["auth_timeout"] > 0 {
							// it was forwarded to its owner, whose own environment lookup may
							// have met the injected failure: the loss happened on the second
							// hop, after this request had been answered truthfully
							out.Probe("loss_exempt_owner_lookup_failed")
							continue
						}
						missing++
					}
				}
				if refused > 0 {
					out.Probe("otlp_or_event_queue_full")
				}
				if out.Faults["auth_slow"] > 0 {
					// requests overlap in this run (a slow lookup keeps one in progress
					// while others come and go): the refusal counter cannot be read
					// "around" one request, so the account is made per node below
					nodeMissing[r.node] += missing
					break
				}
				if missing > refused {
					out.Violate("C23", "success_but_events_discarded", site+"."+rr.kind, "%s was answered %d but %d of its events never reached Honeycomb and only %d were refused by a full queue", desc, st, missing, refused)
				}
			}
		}
		for nd, missing := range nodeMissing {
			total, _ := w.nodes[nd].mm.Get("incoming_router_dropped")
			if refused := int(total) - node429[nd]; missing > refused {
				out.Violate("C23", "success_but_events_discarded", site, "node n%d: requests without per-event statuses were answered with success, %d of their events never reached Honeycomb, but only %d events were refused by a full queue (%d in all, %d of them reported as 429 in batch responses)", nd, missing, refused, int(total), node429[nd])
			}
		}
		if out.Faults["auth_failure"]+out.Faults["auth_unauthorized"] > 0 {
			out.Probe("env_lookup_failed")
		}
		if out.Faults["auth_timeout"] > 0 {
			out.Probe("env_lookup_timeout")
		}
		sort.Strings(log)
		out.Log = append(out.Log, log...)
		for _, n := range w.nodes {
			n.tr.ReleaseAll()
			n.shutdown()
		}
		w.drv.Settle()
	})
	if pt != "" && out.Harness == "" {
		out.Harness = "panic: " + pt
	}
	return out
}

func jsonUnmarshalLoose(b []byte, v any) error {
	return json.Unmarshal(b, v)
}
