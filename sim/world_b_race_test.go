//go:build verif

package verifsim

import (
	"fmt"
	"net/http"
	"os"
	"path/filepath"
	"regexp"
	"sort"
	"strings"
	"testing"
	"time"

	"github.com/honeycombio/refinery/config"
)

// C35: concurrent components never race on shared state.
//
// The race detector is the oracle (binary built with -race); the simulation
// supplies the coverage: complete nodes (World B) with ingestion, peer
// forwarding, membership messages over the simulated Redis, stress-relief
// toggles, memory pressure, config reloads, query and health endpoints and
// shutdown, all in one run. Two things differ from the other checks:
//   - steps are separated by a 1ns bubble sleep, not synctest.Wait(): both wait
//     for quiescence, but Wait adds a happens-before edge that would hide a
//     race between two steps;
//   - the doubles are stateless (nothing recorded behind a lock), so the
//     harness adds no synchronisation the real program lacks; all other
//     oracles are off.

func init() {
	Register(&Check{ID: "C35", World: "B/cluster + real fileConfig (race detector)", RaceMode: true,
		Real: append(append([]string{}, bReal...), "config.fileConfig (configuration runs: Reload, every getter, reload callbacks)", "configwatcher.ConfigWatcher, health.Health, pubsub.LocalPubSub (lifecycle runs: start, use, stop)"),
		Gen: func(r *Rng, tier string, p *Plan) {
			switch f := r.Float(); {
			case f < 0.12:
				genCfgRace(r, tier, p)
			case f < 0.18:
				genLifecycle(r, tier, p)
			default:
				genRace(r, tier, p)
			}
		},
		Run: func(t *testing.T, p *Plan) *Outcome {
			if p.On("cfgrace") {
				return runCfgRace(t, p)
			}
			if p.On("lifecycle") {
				return runLifecycle(t, p)
			}
			return runRace(t, p)
		},
		Stub:      append(append([]string{}, bStub...), "doubles run stateless; oracles other than the race detector are off"),
		OwnProbes: []string{"race_run_with_reload", "race_run_with_stress_toggle", "race_run_with_memory_pressure", "race_run_redis_membership", "race_run_with_shutdown_under_load", "race_run_query_endpoints", "race_run_span_under_stress", "race_run_real_fileconfig", "race_run_component_lifecycle"}})
}

func genRace(r *Rng, tier string, p *Plan) {
	nodes := PickOf(r, 1, 2, 2, 3)
	p.N["nodes"] = int64(nodes)
	p.N["redis"] = int64(PickOf(r, 0, 1, 1))
	p.N["workers"] = int64(PickOf(r, 1, 2, 3))
	p.N["max_batch"] = int64(PickOf(r, 1, 2, 50))
	p.N["batch_timeout_us"] = PickOf(r, int64(10_000), 50_000)
	p.N["sampler"] = int64(PickOf(r, 0, 1, 3, 5, 6))
	n := r.Range(5, 25)
	if tier == "thorough" {
		n = r.Range(5, 80)
	}
	now := int64(0)
	lastEnv := int64(-1_000_000)
	if r.Bool(0.4) {
		// relief on from the start on some node, so that most of the traffic
		// there takes the stress path
		p.Add(Op{K: "stress", At: 0, I: int64(r.Intn(nodes)), N: 1})
		now = 250_000
	}
	for i := 0; i < n; i++ {
		now += PickOf(r, int64(0), 0, 1000, 20_000, 100_000, 300_000)
		nd := int64(r.Intn(nodes))
		switch r.Intn(14) {
		case 0:
			p.Add(Op{K: "reload", At: now, I: nd, S: PickOf(r, "sampler", "kept_size", "noop", "rule_reason")})
		case 1:
			p.Add(Op{K: "stress", At: now, I: nd, N: int64(r.Intn(2))})
		case 2:
			p.Add(Op{K: "heap", At: now, I: nd, N: int64(PickOf(r, 100_001, 100_500, 5_000_000))})
		case 3:
			p.Add(Op{K: "query", At: now, I: nd, S: PickOf(r, "/alive", "/ready", "/version", "/query/trace/abc", "/query/allrules/json", "/query/rules/json/ds0")})
		default:
			// bodies travel plain or zstd-compressed (now and then one that does not
			// decode); some requests carry an environment key, whose lookup takes a
			// while, so that a handler is in progress while others come and go
			op := Op{K: "ev", At: now, I: nd, J: int64(r.Intn(6)), N: int64(i), S: PickOf(r, "json", "msgpack", "json", "msgpack", "json+zstd", "msgpack+zstd", "json+zstdbad"), T: PickOf(r, "batch", "batch", "event", "batch|env"), M: int64(r.Intn(4)), B: r.Bool(0.1)}
			if op.T == "batch|env" {
				// one lookup at a time: a second one would wait on the environment
				// cache's mutex, which a bubble cannot see as idle
				if now < lastEnv+300_000 {
					op.T = "batch"
				} else {
					lastEnv = now
				}
			}
			p.Add(op)
		}
	}
	if r.Bool(0.5) {
		p.N["stop_under_load"] = 1
	}
	p.SortOps()
}

var reRaceFrame = regexp.MustCompile(`(?m)^  (github\.com/honeycombio/refinery/[^\s(]+(?:\([^)]*\))?[^\s(]*)\(`)

// raceReports returns the reports that appeared in the detector's log since the last call.
var raceLogSeen = map[string]int64{}

func newRaceReports() []string {
	prefix := os.Getenv("VERIF_RACE_LOG")
	if prefix == "" {
		return nil
	}
	files, _ := filepath.Glob(prefix + ".*")
	var out []string
	for _, f := range files {
		b, err := os.ReadFile(f)
		if err != nil {
			continue
		}
		seen := raceLogSeen[f]
		if int64(len(b)) <= seen {
			continue
		}
		chunk := string(b[seen:])
		raceLogSeen[f] = int64(len(b))
		for _, rep := range strings.Split(chunk, "==================") {
			if strings.Contains(rep, "DATA RACE") {
				out = append(out, rep)
			}
		}
	}
	return out
}

// raceSite names a report by the first refinery frame of each of its two stacks.
func raceSite(rep string) (site string, harnessOnly bool) {
	parts := regexp.MustCompile(`(?m)^(Previous (read|write)|Read|Write) at `).Split(rep, -1)
	var tops []string
	nRefinery := 2
	harnessTops := 0
	for _, part := range parts[1:] {
		// only the access stack, not the "Goroutine N created at" parts
		if i := strings.Index(part, "Goroutine "); i >= 0 {
			part = part[:i]
		}
		top, first := "", ""
		topIsHarness := false
		for _, line := range strings.Split(part, "\n") {
			l := strings.TrimSpace(line)
			if first == "" && strings.Contains(l, "(") && !strings.HasPrefix(l, "/") && !strings.HasPrefix(l, "runtime.") && strings.Contains(l, ".") && !strings.Contains(l, " ") {
				first = l[:strings.LastIndex(l, "(")]
				topIsHarness = strings.Contains(first, "/verifsim.")
			}
			if strings.HasPrefix(l, "github.com/honeycombio/refinery/") && !strings.Contains(l, "/verifsim.") {
				top = l[:strings.LastIndex(l, "(")]
				top = strings.TrimPrefix(top, "github.com/honeycombio/refinery/")
				break
			}
		}
		if topIsHarness {
			// the racing access itself is harness code, whoever called it
			harnessTops++
		}
		if top == "" {
			nRefinery--
			// no refinery frame in this stack (a goroutine of a dependency): name its own top frame
			top = "dep:" + first
		}
		tops = append(tops, top)
	}
	if len(tops) < 2 || nRefinery <= 0 || harnessTops == 2 {
		return "", true
	}
	sort.Strings(tops)
	return strings.Join(tops, " <-> "), false
}

func runRace(t *testing.T, p *Plan) *Outcome {
	out := NewOutcome()
	newRaceReports() // forget anything older
	pt := InBubble(t, func() {
		peerType := "file"
		if p.On("redis") {
			peerType = "redis"
			out.Probe("race_run_redis_membership")
		}
		samp, sname := samplerPreset(p.N["sampler"])
		w := newWorldB(p, out, bOpts{
			nodes: int(p.N["nodes"]), peerType: peerType, workers: int(p.N["workers"]),
			traceTimeout: 300 * time.Millisecond, sendDelay: 50 * time.Millisecond, sendTicker: 20 * time.Millisecond,
			batchTimeout: us(p.N["batch_timeout_us"]), maxBatch: int(p.N["max_batch"]), stressMode: "never", inQueue: 50,
			sampler: samp, samplerName: sname, shuffleSeed: p.Seed,
		})
		w.drv.RaceMode = true
		w.net.Stateless = true
		w.stateless = true
		for _, n := range w.nodes {
			n.cfg.QueryAuthToken = "tok"
			n.cfg.GetCollectionConfigVal.MaxAlloc = 100_000
			if err := n.startNode(); err != nil {
				out.Harness = fmt.Sprintf("node %s: %v", n.name, err)
				return
			}
		}
		w.drv.Settle()
		var last int64
		for _, op := range p.Ops {
			op := op
			if int(op.I) >= len(w.nodes) {
				continue
			}
			if op.At > last {
				last = op.At
			}
			n := w.nodes[op.I]
			w.drv.AtSig(us(op.At), op.K, fmt.Sprintf("op/%d", op.ID), fmt.Sprintf("%d/%s", op.I, op.S), func() {
				switch op.K {
				case "ev":
					tid := ""
					if op.M != 1 {
						tid = traceIDFor(p.Seed, int(op.J))
					}
					ev := &bEvent{marker: fmt.Sprintf("m%d", op.N), traceID: tid, root: op.M == 3, rate: 1, ts: time.Unix(1700000000, 0).UTC(), fields: map[string]any{"f1": "x"}}
					enc, comp, _ := strings.Cut(op.S, "+")
					if comp == "zstdbad" {
						comp = "zstd_bad"
					}
					ep, env, _ := strings.Cut(op.T, "|")
					key := legacyKey
					if env == "env" {
						key = fmt.Sprintf("hcxik_%058d", op.ID%3) // environment-scoped ingest key shape; a few distinct ones
					}
					req := &bRequest{id: op.ID, node: int(op.I), peer: op.B, endpoint: ep, enc: enc, apiKey: key, dataset: "ds0", events: []*bEvent{ev}, compress: comp}
					if tid != "" && n.sr.Stressed() {
						out.Probe("race_run_span_under_stress")
					}
					w.send(req)
				case "reload":
					out.Probe("race_run_with_reload")
					go func() {
						n.cfg.Mux.Lock()
						switch op.S {
						case "sampler":
							n.cfg.GetSamplerTypeVal, n.cfg.GetSamplerTypeName = samplerPreset(int64(op.ID % nSamplerPresets))
						case "kept_size":
							n.cfg.SampleCache.KeptSize = uint(1 + op.ID%5)
						case "rule_reason":
							n.cfg.AddRuleReasonToTrace = !n.cfg.AddRuleReasonToTrace
						}
						n.cfg.Mux.Unlock()
						n.cfg.Reload()
					}()
				case "stress":
					out.Probe("race_run_with_stress_toggle")
					go func() {
						n.cfg.Mux.Lock()
						if op.N == 1 {
							n.cfg.StressRelief.Mode = "always"
						} else {
							n.cfg.StressRelief.Mode = "never"
						}
						n.cfg.Mux.Unlock()
						n.cfg.Reload()
					}()
				case "heap":
					out.Probe("race_run_with_memory_pressure")
					n.heapOnce.Store(uint64(op.N))
				case "query":
					out.Probe("race_run_query_endpoints")
					hreq, _ := http.NewRequest("GET", "http://refinery.sim"+op.S, nil)
					hreq.Header.Set("X-Honeycomb-Refinery-Query", "tok")
					hreq.RemoteAddr = "client:1"
					if !n.admit() {
						return
					}
					go func() {
						n.app.IncomingRouter.VerifHandler().ServeHTTP(newRespRec(), hreq)
						n.inflight.Done()
					}()
				}
			})
		}
		stopAt := us(last) + 2*time.Second
		if p.On("stop_under_load") {
			stopAt = us(last)
			out.Probe("race_run_with_shutdown_under_load")
		}
		w.drv.Run(stopAt)
		done := make(chan struct{}, len(w.nodes))
		for _, n := range w.nodes {
			n := n
			go func() { n.shutdown(); done <- struct{}{} }()
		}
		w.drv.Run(stopAt + 35*time.Second)
	})
	for _, rep := range newRaceReports() {
		site, harnessOnly := raceSite(rep)
		if harnessOnly {
			if out.Harness == "" {
				out.Harness = "race report with no refinery frame (harness race?):\n" + rep
			}
			continue
		}
		out.Violate("C35", "data_race", site, "the race detector reported:\n%s", strings.TrimSpace(rep))
	}
	if pt != "" && out.Harness == "" && !strings.Contains(pt, "blocked goroutines remain") {
		out.Harness = "panic/deadlock in bubble: " + pt
	}
	return out
}

var _ = config.MockConfig{}
