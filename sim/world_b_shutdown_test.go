//go:build verif

package verifsim

import (
	"context"
	"fmt"
	"regexp"
	"sort"
	"strings"
	"testing"
	"time"

	"github.com/honeycombio/refinery/agent"
	"github.com/honeycombio/refinery/collect/cache"
	"github.com/honeycombio/refinery/config"
	"github.com/honeycombio/refinery/internal/health"
	"github.com/honeycombio/refinery/logger"
	"github.com/honeycombio/refinery/metrics"
)

// C36: graceful shutdown drains buffered traces and stops cleanly.
// World B: ingestion in progress (buffered traces in every lifecycle state,
// pending batches, peer forwards), keep-everything sampler; shutdown requested
// at a plan-chosen instant and executed as cmd/refinery/main.go does (close
// done, sleep 2 x BatchTimeout, startstop.Stop). Plus the OpAMP agent world:
// Agent.Stop at an arbitrary instant.
//
// Oracles: every span accepted before the shutdown reaches the fake Honeycomb
// exactly once (README "Restarts": in-flight traces are flushed); nothing is
// left buffered or queued; after Stop the bubble holds no goroutine of
// refinery's (a leftover shows up as the end-of-bubble deadlock report, a busy
// loop as the real-time watchdog firing).

func init() {
	Register(&Check{ID: "C36", World: "B/cluster+agent", Gen: genShutdown, Run: runShutdown, Real: append(append([]string{}, bReal...), "agent.Agent (agent runs)"), Stub: bStub,
		OwnProbes: []string{"traces_buffered_at_shutdown", "batches_pending_at_shutdown", "shutdown_multi_node", "agent_stopped", "span_in_queue_at_shutdown", "sender_backlog_at_stop", "flush_met_busy_honeycomb", "decision_round_in_progress_at_stop"}})
}

func genShutdown(r *Rng, tier string, p *Plan) {
	if r.Bool(0.15) {
		p.N["agent"] = 1
		p.N["stop_at_us"] = r.I64n(3_000_000)
		p.N["usage_every_us"] = PickOf(r, int64(300_000), 1_000_000)
		p.N["send_delay_us"] = PickOf(r, int64(0), 50_000, 2_000_000)
		for i := 0; i < 6; i++ {
			p.Add(Op{K: "grow", At: r.I64n(3_000_000), N: int64(r.Range(1, 1000))})
		}
		p.SortOps()
		return
	}
	nodes := PickOf(r, 1, 1, 2, 3)
	p.N["nodes"] = int64(nodes)
	p.N["workers"] = int64(PickOf(r, 1, 2, 3))
	p.N["trace_timeout_us"] = PickOf(r, int64(500_000), 2_000_000, 5_000_000)
	p.N["send_delay_us"] = PickOf(r, int64(50_000), 500_000, 2_000_000)
	p.N["batch_timeout_us"] = PickOf(r, int64(20_000), 100_000, 500_000)
	p.N["max_batch"] = int64(PickOf(r, 2, 50))
	nTraces := r.Range(1, 10)
	if tier == "thorough" {
		nTraces = r.Range(1, 30)
	}
	now := int64(0)
	mk := 0
	for t := 0; t < nTraces; t++ {
		nsp := r.Range(1, 4)
		hasRoot := r.Bool(0.6)
		for s := 0; s < nsp; s++ {
			now += PickOf(r, int64(0), 1000, 50_000, 200_000)
			mk++
			m := int64(0)
			if hasRoot && s == nsp-1 {
				m = 3
			}
			if r.Bool(0.1) {
				m = 1 // not part of a trace
			}
			p.Add(Op{K: "ev", At: now, I: int64(r.Intn(nodes)), J: int64(t), N: int64(mk), S: PickOf(r, "json", "msgpack"), T: "batch", M: m})
		}
	}
	// shutdown somewhere inside (or right after) the traffic
	p.N["stop_at_us"] = PickOf(r, r.I64n(now+1), now, now+1, now+PickOf(r, int64(10_000), 100_000, 1_000_000))
	stop := p.N["stop_at_us"]
	if r.Bool(0.3) {
		// Honeycomb is busy around the shutdown: the final flush meets 429/503 + Retry-After
		p.N["busy_from_us"] = max(0, stop-PickOf(r, int64(0), 0, 100_000, 1_000_000))
		p.N["busy_n"] = int64(PickOf(r, 1, 2, 5))
		p.N["busy_status"] = int64(PickOf(r, 429, 503))
		p.N["busy_retry_s"] = int64(PickOf(r, 1, 2, 5))
	}
	if r.Bool(0.3) {
		// the collector's sender goroutine is slow: decided traces queue up behind
		// it and are still queued when Stop is called
		p.N["park_sender_us"] = max(0, stop-PickOf(r, int64(0), 100_000, 1_000_000, 3_000_000, 6_000_000))
		p.N["release_sender_after_us"] = PickOf(r, int64(100_000), 1_000_000, 3_000_000)
	}
	if r.Bool(0.25) {
		// a worker is slow in the middle of a decision round: it is held at its
		// next decision some time before the shutdown and let go after Stop has
		// been called, so the rest of the round is decided during the shutdown
		p.N["park_decider_us"] = max(0, stop-PickOf(r, int64(0), 100_000, 1_000_000, 3_000_000, 6_000_000))
		p.N["release_decider_after_us"] = PickOf(r, int64(100_000), 1_000_000, 3_000_000)
	}
	// General.ConfigReloadInterval: 0 switches the periodic reload off (legal)
	p.N["cfg_reload_us"] = PickOf(r, int64(300_000_000), 300_000_000, 0)
	p.SortOps()
}

var reBubbleGoroutine = regexp.MustCompile(`(?m)^(github\.com/honeycombio/[^\s(]+|[a-z0-9./-]+/[^\s(]+)\(`)

func runShutdown(t *testing.T, p *Plan) *Outcome {
	if p.On("agent") {
		return runAgentShutdown(t, p)
	}
	out := NewOutcome()
	pt := InBubble(t, func() {
		w := newWorldB(p, out, bOpts{
			nodes: int(p.N["nodes"]), peerType: "file", workers: int(p.N["workers"]),
			traceTimeout: us(p.N["trace_timeout_us"]), sendDelay: us(p.N["send_delay_us"]), sendTicker: 50 * time.Millisecond,
			batchTimeout: us(p.N["batch_timeout_us"]), maxBatch: int(p.N["max_batch"]), stressMode: "never", inQueue: 1000,
			sampler: &config.DeterministicSamplerConfig{SampleRate: 1}, samplerName: "DeterministicSampler", shuffleSeed: p.Seed,
		})
		for _, n := range w.nodes {
			if err := n.startNode(); err != nil {
				out.Harness = fmt.Sprintf("node %s: %v", n.name, err)
				return
			}
		}
		w.drv.Settle()
		if len(w.nodes) > 1 {
			out.Probe("shutdown_multi_node")
		}
		stopAt := us(p.N["stop_at_us"])
		var evs []*routeEv
		for _, op := range p.Ops {
			op := op
			if op.K != "ev" || int(op.I) >= len(w.nodes) || us(op.At) > stopAt {
				continue
			}
			tid := ""
			if op.M != 1 {
				tid = traceIDFor(p.Seed, int(op.J))
			}
			ev := &bEvent{marker: fmt.Sprintf("m%d", op.N), traceID: tid, root: op.M == 3, rate: 1, ts: time.Unix(1700000000+op.N, 0).UTC()}
			req := &bRequest{id: op.ID, node: int(op.I), endpoint: "batch", enc: op.S, apiKey: legacyKey, dataset: "ds", events: []*bEvent{ev}}
			re := &routeEv{op: op, ev: ev, req: req, entry: int(op.I)}
			evs = append(evs, re)
			w.drv.AtSig(us(op.At), "request", fmt.Sprintf("op/%d", op.ID), fmt.Sprintf("%d/%d", op.I, op.J), func() { w.send(req) })
		}
		w.stopAt = stopAt
		if p.On("busy_n") {
			w.busyFrom, w.busyLeft, w.busyStatus, w.busyRetryAfter = us(p.N["busy_from_us"]), int(p.N["busy_n"]), int(p.N["busy_status"]), int(p.N["busy_retry_s"])
		}
		if _, ok := p.N["park_sender_us"]; ok {
			w.drv.At(us(p.N["park_sender_us"]), "park", "park-sender", func() {
				for _, n := range w.nodes {
					n.tr.Park("sendTrace")
				}
				out.Fault("sender_stalled")
			})
			rel := stopAt + 2*us(p.N["batch_timeout_us"]) + us(p.N["release_sender_after_us"])
			w.drv.At(rel, "release", "release-sender", func() {
				for _, n := range w.nodes {
					if n.tr.Parked("sendTrace") {
						out.Probe("sender_backlog_at_stop")
					}
					n.tr.Release("sendTrace")
				}
			})
		}
		if _, ok := p.N["park_decider_us"]; ok {
			w.drv.At(us(p.N["park_decider_us"]), "park", "park-decider", func() {
				for _, n := range w.nodes {
					for wk := 0; wk < n.coll.VerifWorkers(); wk++ {
						n.tr.Park(fmt.Sprintf("makeDecision/%d", wk))
					}
				}
				out.Fault("decider_stalled")
			})
			rel := stopAt + 2*us(p.N["batch_timeout_us"]) + us(p.N["release_decider_after_us"])
			w.drv.At(rel, "release", "release-decider", func() {
				for _, n := range w.nodes {
					for wk := 0; wk < n.coll.VerifWorkers(); wk++ {
						key := fmt.Sprintf("makeDecision/%d", wk)
						if n.tr.Parked(key) {
							out.Probe("decision_round_in_progress_at_stop")
						}
						n.tr.Release(key)
					}
				}
			})
		}
		stopped := make(chan struct{})
		w.drv.At(stopAt, "shutdown", "shutdown", func() {
			// what is in flight right now
			for _, n := range w.nodes {
				for wk := 0; wk < n.coll.VerifWorkers(); wk++ {
					if len(n.coll.VerifBuffered(wk, time.Second)) > 0 {
						out.Probe("traces_buffered_at_shutdown")
					}
					if a, b := n.coll.VerifQueueLens(wk); a+b > 0 {
						out.Probe("span_in_queue_at_shutdown")
					}
				}
				if v, _ := n.mm.Get("libhoney_upstream_queued_items"); v > 0 {
					out.Probe("batches_pending_at_shutdown")
				}
				if v, _ := n.mm.Get("libhoney_peer_queued_items"); v > 0 {
					out.Probe("batches_pending_at_shutdown")
				}
			}
			for _, n := range w.nodes {
				n.noteBuffered()
			}
			out.Fault("graceful_shutdown")
			// every node is told to shut down at the same instant; each runs main's sequence
			left := len(w.nodes)
			done := make(chan struct{}, left)
			// (a microsecond apart, in an order taken from the seed: which of two
			// nodes closes its listeners first is then the plan's choice, not the Go
			// scheduler's)
			order := append([]*bNode(nil), w.nodes...)
			sort.Slice(order, func(i, j int) bool {
				return H(p.Seed, "shutdown-order", order[i].idx) < H(p.Seed, "shutdown-order", order[j].idx)
			})
			for rank, n := range order {
				rank, n := rank, n
				go func() {
					time.Sleep(time.Duration(rank) * time.Microsecond)
					n.shutdown()
					done <- struct{}{}
				}()
			}
			go func() {
				for i := 0; i < left; i++ {
					<-done
				}
				close(stopped)
			}()
		})
		w.drv.Run(stopAt + 40*time.Second)
		select {
		case <-stopped:
		default:
			out.Violate("C36", "shutdown_does_not_complete", "cmd/refinery.main/startstop.Stop", "40 simulated seconds after the shutdown request startstop.Stop has not returned on every node")
			return
		}
		w.mu.Lock()
		hnyBy := map[string]int{}
		for _, h := range w.hny {
			hnyBy[h.marker]++
		}
		w.mu.Unlock()
		unreachable := out.Faults["peer_unreachable"] > 0
		var log []string
		for _, re := range evs {
			r := re.req
			mk := re.ev.marker
			log = append(log, fmt.Sprintf("%s entry=n%d status=%v hny=%d", mk, re.entry, r.resp.statuses, hnyBy[mk]))
			if !r.finished {
				out.Violate("C36", "request_never_answered", "route.Router", "request for %s sent before the shutdown never completed", mk)
				continue
			}
			if r.resp.status() != 200 || !strings.Contains(r.resp.body.String(), "202") {
				continue // refused: fine
			}
			if hnyBy[mk] == 1 {
				continue
			}
			if hnyBy[mk] > 1 {
				out.Violate("C36", "span_sent_twice_around_shutdown", "collect.InMemCollector.Stop", "event %s reached Honeycomb %d times", mk, hnyBy[mk])
				continue
			}
			if unreachable && len(w.nodes) > 1 {
				// a peer forward may have hit a node that had already stopped listening
				out.Probe("loss_exempt_peer_already_down")
				continue
			}
			w.mu.Lock()
			wasBuffered := re.ev.traceID != "" && (w.bufferedAtStop[re.ev.traceID] || w.queuedAtStop)
			w.mu.Unlock()
			site := "after-collector (transmission or router)"
			where := "was not in any collector buffer when the node stopped"
			// a trace that some node's decision cache remembers as kept was decided:
			// its loss is not the recorded finding (which is about traces never decided)
			decidedKept := false
			if re.ev.traceID != "" {
				for _, n := range w.nodes {
					for wk := 0; wk < n.coll.VerifWorkers(); wk++ {
						if _, _, found := cache.VerifPeekKept(n.coll.VerifSentCache(wk), re.ev.traceID); found {
							decidedKept = true
						}
					}
				}
			}
			w.mu.Lock()
			queued := w.queuedAtStop
			w.mu.Unlock()
			if decidedKept && !queued {
				// (with spans still in a worker's queue at the stop this span may be one
				// of them - the recorded finding - so only runs with empty queues count)
				site = "collect.InMemCollector.send: trace decided kept but never handed to the transmission"
				where = "was decided as kept (the decision cache remembers it)"
			} else if wasBuffered {
				site = "collect.CollectorWorker.collect: buffered trace not decided at shutdown"
				where = "was still buffered in a collector when the node stopped"
			}
			out.Violate("C36", "accepted_span_lost_at_shutdown", site, "event %s (trace#%d, entry n%d) was accepted (202) at t=%v, shutdown was requested at t=%v; its trace %s and the span never reached Honeycomb", mk, re.op.J, re.entry, us(re.op.At), stopAt, where)
		}
		sort.Strings(log)
		out.Log = append(out.Log, log...)
	})
	classifyShutdownPanic(out, pt)
	return out
}

// classifyShutdownPanic turns the end-of-bubble report into C36 verdicts.
func classifyShutdownPanic(out *Outcome, pt string) {
	if pt == "" || out.Harness != "" {
		return
	}
	if strings.Contains(pt, "blocked goroutines remain") {
		// find the refinery (or dependency) function each leftover goroutine sits in
		var sites []string
		for _, g := range strings.Split(pt, "\n\n") {
			if !strings.Contains(g, "synctest bubble") {
				continue
			}
			site := ""
			for _, line := range strings.Split(g, "\n") {
				if strings.HasPrefix(line, "created by ") {
					site = strings.Fields(strings.TrimPrefix(line, "created by "))[0]
				}
			}
			if strings.Contains(site, "verifsim") || site == "" {
				continue
			}
			sites = append(sites, site)
		}
		sort.Strings(sites)
		if len(sites) > 0 {
			out.Violate("C36", "goroutines_left_running_after_stop", sites[0], "after shutdown completed %d goroutine(s) are still alive, started by: %s", len(sites), strings.Join(sites, ", "))
			return
		}
	}
	out.Harness = "panic/deadlock in bubble: " + pt
}

func runAgentShutdown(t *testing.T, p *Plan) *Outcome {
	out := NewOutcome()
	pt := InBubble(t, func() {
		clk := NewSimClock("agent")
		drv := NewDriver(out, p.Seed, clk)
		w := &agentWorld{p: p, out: out, drv: drv, sendDelay: us(p.N["send_delay_us"]), delivered: map[string]float64{}}
		cfg := &config.MockConfig{}
		mm := metrics.NewMultiMetrics()
		mm.Config = cfg
		mm.Start()
		for _, n := range []string{"bytes_received_traces", "bytes_received_logs", "incoming_router_span", "events_dropped"} {
			mm.Register(metrics.Metadata{Name: n, Type: metrics.Counter})
		}
		hr := &health.MockHealthReporter{}
		hr.SetAlive(true)
		a := agent.VerifNewAgent(clk, agent.Logger{Logger: &logger.NullLogger{}}, cfg, mm, hr, &fakeOpAMP{w: w}, 100*time.Millisecond, us(p.N["usage_every_us"]))
		// the agent's goroutines create their tickers: before the driver looks for
		// its first event
		drv.Settle()
		// A usage tick that falls into a send in progress waits with the driver
		// until the send is over instead of in the ticker's one-slot channel: the
		// report loop would otherwise come back from a send cut short by Stop with
		// both its context cancelled and a tick buffered, and which of the two a Go
		// select takes is not the simulator's to decide (it decides only whether a
		// report nobody waits for is started after Stop).
		drv.TickGate = func(tk *SimTicker) bool {
			return !strings.Contains(tk.Key, "reportUsagePeriodically") || !w.inFlight
		}
		for _, op := range p.Ops {
			op := op
			drv.At(us(op.At), "grow", fmt.Sprintf("op/%d", op.ID), func() { mm.Count("bytes_received_traces", op.N) })
		}
		drv.At(us(p.N["stop_at_us"]), "agent_stop", "agent_stop", func() {
			a.Stop(context.Background())
			out.Probe("agent_stopped")
			out.Fault("graceful_shutdown")
		})
		drv.Run(us(p.N["stop_at_us"]) + 5*time.Second)
	})
	classifyShutdownPanic(out, pt)
	return out
}
