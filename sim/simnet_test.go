//go:build verif

package verifsim

import (
	"bytes"
	"fmt"
	"io"
	"net/http"
	"sync"
	"time"

	"github.com/klauspost/compress/zstd"
)

// SimNet is the only network refinery's HTTP clients see in a simulation: an
// http.RoundTripper registered for the "http" scheme on the *http.Transport
// that DirectTransmission and the router's proxy client use. The real
// http.Client (timeouts, redirects, header handling) stays in the loop.

type SimResp struct {
	Status  int
	Header  http.Header
	Body    []byte
	Delay   time.Duration // time before the response is available
	Hang    bool          // never answer: the request ends when its context does (client timeout)
	ConnErr bool          // connection error before any response
}

type NetRec struct {
	Seq     int
	At      time.Duration
	Method  string
	Host    string
	Path    string
	Header  http.Header
	RawBody []byte // as sent
	Body    []byte // after Content-Encoding has been undone
	Resp    *SimResp
	Step    int
}

type SimNet struct {
	mu       sync.Mutex
	start    time.Time
	out      *Outcome
	handlers map[string]func(rec *NetRec, req *http.Request) *SimResp
	Log      []*NetRec
	seq      int
	// Stateless: record nothing (race mode)
	Stateless bool
}

func NewSimNet(out *Outcome) *SimNet {
	return &SimNet{start: time.Now(), out: out, handlers: map[string]func(*NetRec, *http.Request) *SimResp{}}
}

func (n *SimNet) Handle(host string, h func(rec *NetRec, req *http.Request) *SimResp) {
	n.mu.Lock()
	n.handlers[host] = h
	n.mu.Unlock()
}

var zstdDec, _ = zstd.NewReader(nil)

func (n *SimNet) RoundTrip(req *http.Request) (*http.Response, error) {
	var raw []byte
	if req.Body != nil {
		raw, _ = io.ReadAll(req.Body)
		req.Body.Close()
	}
	body := raw
	if req.Header.Get("Content-Encoding") == "zstd" {
		if dec, err := zstdDec.DecodeAll(raw, nil); err == nil {
			body = dec
		}
	}
	rec := &NetRec{At: time.Now().Sub(n.start), Method: req.Method, Host: req.URL.Host, Path: req.URL.EscapedPath(), Header: req.Header.Clone(), RawBody: raw, Body: body}
	var h func(rec *NetRec, req *http.Request) *SimResp
	if n.Stateless {
		// the routing table is read-only once the nodes are up: no lock, no record
		h = n.handlers[req.URL.Host]
	} else {
		n.mu.Lock()
		h = n.handlers[req.URL.Host]
		n.seq++
		rec.Seq = n.seq
		rec.Step = n.out.Steps
		n.Log = append(n.Log, rec)
		n.mu.Unlock()
	}
	if h == nil {
		return nil, fmt.Errorf("simnet: no route to host %q", req.URL.Host)
	}
	resp := h(rec, req)
	rec.Resp = resp
	if resp == nil {
		resp = &SimResp{Status: 200}
	}
	if resp.ConnErr {
		return nil, fmt.Errorf("simnet: connection refused")
	}
	if resp.Hang {
		<-req.Context().Done()
		return nil, req.Context().Err()
	}
	if resp.Delay > 0 {
		select {
		case <-time.After(resp.Delay):
		case <-req.Context().Done():
			return nil, req.Context().Err()
		}
	}
	hdr := resp.Header
	if hdr == nil {
		hdr = http.Header{}
	}
	return &http.Response{
		StatusCode: resp.Status, Status: fmt.Sprintf("%d %s", resp.Status, http.StatusText(resp.Status)),
		Proto: "HTTP/1.1", ProtoMajor: 1, ProtoMinor: 1, Header: hdr,
		Body: io.NopCloser(bytes.NewReader(resp.Body)), ContentLength: int64(len(resp.Body)), Request: req,
	}, nil
}

// Transport returns an *http.Transport whose plain-http traffic goes to the SimNet.
func (n *SimNet) Transport() *http.Transport {
	t := &http.Transport{}
	t.RegisterProtocol("http", n)
	return t
}
