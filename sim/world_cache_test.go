//go:build verif

package verifsim

import (
	"context"
	"fmt"
	"sync"
	"testing"
	"time"

	cuckoo "github.com/panmari/cuckoofilter"

	"github.com/honeycombio/refinery/collect/cache"
	"github.com/honeycombio/refinery/config"
	"github.com/honeycombio/refinery/metrics"
	"github.com/honeycombio/refinery/types"
)

// C31: the decision cache remembers what it promises.
//
// Real: cache.cuckooSentCache with its CuckooTraceChecker (async add queue and
// 100µs drain ticker on the bubble clock), KeptReasonsCache, the maintenance
// goroutine (SizeCheckInterval ticker) and Resize.
// Reference model: an LRU list (recency = record or lookup) for kept decisions;
// for dropped decisions an obligation "answered dropped" that lasts until the
// first rotation of the drop filter after the record (rotation = a maintenance
// cycle that saw the filter full, observed through the load-factor gauge).

func init() {
	Register(&Check{
		ID: "C31", World: "E/decision-cache", Gen: genCache, Run: runCache,
		OwnProbes: []string{"kept_evicted_by_capacity", "resize_shrinks", "dropped_checked_after_ttl", "dropped_and_kept", "filter_rotated", "drop_recorded_into_both_generations", "drop_checked_after_a_rotation", "drop_checked_after_a_rotation_and_ttl"},
		Real:      []string{"collect/cache.cuckooSentCache", "collect/cache.CuckooTraceChecker (add queue, drain loop, Maintain, rotation)", "collect/cache.KeptReasonsCache", "generics.SetWithTTL", "hashicorp/golang-lru", "panmari/cuckoofilter"},
		Stub:      []string{"metrics (recording double)", "clock (synctest bubble clock: drain and maintenance tickers run on simulated time)"},
	})
}

type recMetrics struct {
	*metrics.MockMetrics
	mu        sync.Mutex
	loads     []float64 // every CurrentLoadFactor gauge value, in order
	queueFull int
}

func (m *recMetrics) Gauge(name string, v float64) {
	if name == cache.CurrentLoadFactor {
		m.mu.Lock()
		m.loads = append(m.loads, v)
		m.mu.Unlock()
	}
	m.MockMetrics.Gauge(name, v)
}
func (m *recMetrics) Up(name string) {
	if name == cache.AddQueueFull {
		m.mu.Lock()
		m.queueFull++
		m.mu.Unlock()
	}
	m.MockMetrics.Up(name)
}

func genCache(r *Rng, tier string, p *Plan) {
	p.N["kept"] = int64(PickOf(r, 1, 2, 3, 5, 8, 50))
	small := r.Bool(0.3)
	if small {
		p.N["dropped"] = int64(PickOf(r, 4, 8, 16))
	} else {
		p.N["dropped"] = 10000
	}
	p.N["size_check_us"] = PickOf(r, int64(10_000), 100_000, 1_000_000)
	n := r.Range(5, 40)
	if tier == "thorough" {
		n = r.Range(5, 120)
	}
	ids := r.Range(3, 12)
	if small {
		ids = r.Range(8, 40)
	}
	now := int64(0)
	fill := small && r.Bool(0.6)
	if r.Bool(0.15) {
		// a filter of a few hundred entries, filled in bursts
		p.N["dropped"] = int64(PickOf(r, 100, 120, 250))
		fill = true
	}
	nextFresh := int64(1000)
	for i := 0; i < n; i++ {
		id := int64(r.Intn(ids))
		if fill && r.Bool(0.35) {
			// a burst of drop records for fresh traces (pushes the filter towards a
			// rotation), then time for the drain and a maintenance cycle or two
			k := int64(max(1, 2*int(p.N["dropped"])/PickOf(r, 3, 5, 8))) // the filter has up to twice the configured slots
			probe := r.Bool(0.6)
			if probe {
				// a decision recorded just before the burst, looked up after it
				p.Add(Op{K: "drop", At: now, I: id})
				if r.Bool(0.3) {
					p.Add(Op{K: "kept", At: now, I: id, N: 2, S: "dynamic"})
				}
				if r.Bool(0.5) {
					// a reload with another DroppedSize between the record and the burst
					d := p.N["dropped"]
					p.Add(Op{K: "resize", At: now, N: p.N["kept"], M: PickOf(r, 2*d, 2*d, max(d/2, 4), d)})
				}
			}
			p.Add(Op{K: "fill", At: now, I: nextFresh, N: k})
			nextFresh += k
			dt := p.N["size_check_us"] * int64(PickOf(r, 1, 2, 3))
			now += dt
			p.Add(Op{K: "adv", At: now, N: dt})
			if probe {
				if r.Bool(0.6) {
					// beyond the few seconds for which recent drops are also remembered in a set
					now += 3_100_000
					p.Add(Op{K: "adv", At: now, N: 3_100_000})
				}
				p.Add(Op{K: PickOf(r, "check_trace", "check_span"), At: now, I: id})
			}
			continue
		}
		switch r.Intn(12) {
		case 0, 1, 2:
			p.Add(Op{K: "kept", At: now, I: id, N: PickOf(r, int64(1), 2, 10, 1000, 65535, 65536, 1<<31, 1<<32-1), S: PickOf(r, "rules/a", "dynamic", "deterministic/always", "")})
		case 3, 4:
			p.Add(Op{K: "drop", At: now, I: id})
		case 5, 6, 7:
			p.Add(Op{K: "check_span", At: now, I: id, N: int64(r.Intn(3))})
		case 8:
			p.Add(Op{K: "check_trace", At: now, I: id})
		case 9:
			p.Add(Op{K: "resize", At: now, N: int64(PickOf(r, 1, 2, 3, 5, 8, 50)), M: PickOf(r, p.N["dropped"], p.N["dropped"], max(p.N["dropped"]/2, 4), 2*p.N["dropped"])})
		default:
			dt := PickOf(r, int64(0), 50, 100, 150, 1000, 100_000, 1_000_000, 3_000_000, 3_000_001, 5_000_000)
			now += dt
			p.Add(Op{K: "adv", At: now, N: dt})
		}
	}
}

type keptEnt struct {
	id     string
	rate   uint
	reason string
}

func runCache(t *testing.T, p *Plan) *Outcome {
	out := NewOutcome()
	pt := InBubble(t, func() {
		met := &recMetrics{MockMetrics: &metrics.MockMetrics{}}
		met.MockMetrics.Start()
		cfg := config.SampleCacheConfig{KeptSize: uint(p.N["kept"]), DroppedSize: uint(p.N["dropped"]), SizeCheckInterval: config.Duration(us(p.N["size_check_us"])), WorkerCount: 1}
		c, err := cache.NewCuckooSentCache(cfg, met)
		if err != nil {
			out.Harness = err.Error()
			return
		}
		start := time.Now()
		bigFilter := p.N["dropped"] >= 1000
		var ref *cuckoo.Filter
		if bigFilter {
			ref = cuckoo.NewFilter(uint(p.N["dropped"]))
		}
		keptCap := int(p.N["kept"])
		var lru []keptEnt // oldest first
		touch := func(id string) bool {
			for i, e := range lru {
				if e.id == id {
					lru = append(append(lru[:i:i], lru[i+1:]...), e)
					return true
				}
			}
			return false
		}
		// Dropped decisions. The filter has two generations: a record goes into the
		// current filter and, once it exists, into the next one, which takes over
		// when a maintenance cycle sees the current one full. The model follows the
		// generations through the load-factor gauge of each maintenance cycle and
		// counts the records routed into each filter. A record must be answered
		// "dropped" for as long as a filter that received it is the current one and
		// cannot have been filled to capacity: few enough records since it was
		// created that no insert can have failed (near capacity a cuckoo filter
		// evicts old entries when an insert fails; that is "filled to capacity").
		type dropRec struct {
			gen    int // generation of the current filter at record time
			twoGen bool
			at     time.Time
		}
		dropped := map[string]*dropRec{}
		everDropped := map[string]bool{}
		slotsFor := func(capacity int64) float64 {
			f := cuckoo.NewFilter(uint(capacity))
			f.Insert([]byte("x"))
			return 1 / f.LoadFactor()
		}
		// a filter has the size that was configured when it was created
		curCap := p.N["dropped"]
		slotsOf := map[int]float64{0: slotsFor(curCap)}
		curGen, nextGenExists, gaugesSeen := 0, false, 0
		routed := map[int]int{} // generation -> records routed into that filter
		follow := func() {
			met.mu.Lock()
			defer met.mu.Unlock()
			for ; gaugesSeen < len(met.loads); gaugesSeen++ {
				l := met.loads[gaugesSeen]
				if !nextGenExists && l > 0.5 {
					nextGenExists = true
					routed[curGen+1] = 0
					slotsOf[curGen+1] = slotsFor(curCap)
				}
				if l > 0.99 {
					curGen++
					nextGenExists = true
					routed[curGen+1] = 0
					slotsOf[curGen+1] = slotsFor(curCap)
				}
			}
		}
		noteDrop := func(id string, obligation bool) {
			follow()
			routed[curGen]++
			if nextGenExists {
				routed[curGen+1]++
			}
			everDropped[id] = true
			if obligation {
				dropped[id] = &dropRec{gen: curGen, twoGen: nextGenExists, at: time.Now()}
				if nextGenExists {
					out.Probe("drop_recorded_into_both_generations")
				}
			}
		}
		// held reports whether the record is still owed an answer, and whether a rotation lies behind it
		held := func(d *dropRec) (owed bool, rotated bool) {
			follow()
			rotated = curGen > d.gen
			if curGen == d.gen || (curGen == d.gen+1 && d.twoGen) {
				// Below these bounds no insert can have failed (a failed insert evicts an
				// arbitrary old entry). Small filters: with at most a quarter of the
				// slots used no bucket pair can be full (provable). Larger ones: at 65%
				// no failure in 300000 trials of the same library at 75% (a 64-slot
				// filter at 75% fails 3 times in 100000, hence the distinction).
				slots := slotsOf[curGen]
				if slots < 128 {
					return float64(routed[curGen]) <= slots/4, rotated
				}
				return float64(routed[curGen]) <= 0.65*slots, rotated
			}
			return false, rotated
		}
		idOf := func(i int64) string { return traceIDFor(p.Seed, int(i)) }
		const site = "collect/cache.cuckooSentCache"
		expect := func(op Op, where, id string, rec cache.TraceSentRecord, reason string, found bool, touches bool) {
			met.mu.Lock()
			qf := met.queueFull
			met.mu.Unlock()
			// dropped obligation
			if d, ok := dropped[id]; ok && qf == 0 {
				owed, rotated := held(d)
				if rotated {
					out.Probe("filter_rotated")
				}
				if owed {
					if rotated {
						out.Probe("drop_checked_after_a_rotation")
					}
					if time.Now().Sub(d.at) > 3*time.Second {
						out.Probe("dropped_checked_after_ttl")
						if rotated {
							out.Probe("drop_checked_after_a_rotation_and_ttl")
						}
					}
					inKept := false
					for _, e := range lru {
						if e.id == id {
							inKept = true
						}
					}
					if inKept {
						out.Probe("dropped_and_kept")
					}
					if !found || rec.Kept() {
						out.Violate("C31", "dropped_decision_not_answered_dropped", site+"."+where, "op#%d %s(trace#%d) at t=%v: recorded dropped at t=%v into filter generation %d (next generation existed: %v); the current filter is generation %d and has received %d records (%d slots), the add queue never overflowed; answered found=%v kept=%v", op.ID, where, op.I, time.Now().Sub(start), d.at.Sub(start), d.gen, d.twoGen, curGen, routed[curGen], int(slotsOf[curGen]), found, found && rec.Kept())
					}
					return
				}
			}
			if found && !rec.Kept() {
				if everDropped[id] {
					return // still remembered beyond the obligation: fine
				}
				// never recorded as dropped: must be a genuine filter false positive
				if ref != nil && !ref.Lookup([]byte(id)) {
					out.Violate("C31", "answered_dropped_but_never_dropped", site+"."+where, "op#%d %s(trace#%d): answered dropped, but it was never recorded as dropped and an identical reference filter has no false positive for it", op.ID, where, op.I)
				} else {
					out.Probe("filter_false_positive_exempt")
				}
				return
			}
			// kept obligation
			for _, e := range lru {
				if e.id == id {
					if !found || !rec.Kept() {
						out.Violate("C31", "kept_decision_forgotten", site+"."+where, "op#%d %s(trace#%d): among the %d most recent kept decisions (capacity %d) but answered found=%v", op.ID, where, op.I, len(lru), keptCap, found)
					} else if rec.Rate() != e.rate || reason != e.reason {
						out.Violate("C31", "kept_decision_wrong_rate_or_reason", site+"."+where, "op#%d %s(trace#%d): recorded rate=%d reason=%q, answered rate=%d reason=%q", op.ID, where, op.I, e.rate, e.reason, rec.Rate(), reason)
					}
					if touches {
						touch(id)
					}
					return
				}
			}
		}
		for _, op := range p.Ops {
			id := idOf(op.I)
			switch op.K {
			case "kept":
				tr := &types.Trace{TraceID: id}
				tr.SetSampleRate(uint(op.N))
				c.Record(tr, true, op.S)
				if !touch(id) {
					lru = append(lru, keptEnt{})
				}
				lru[len(lru)-1] = keptEnt{id: id, rate: uint(op.N), reason: op.S}
				if len(lru) > keptCap {
					lru = lru[len(lru)-keptCap:]
					out.Probe("kept_evicted_by_capacity")
				}
			case "fill":
				for k := int64(0); k < op.N; k++ {
					fid := idOf(op.I + k)
					c.Record(&types.Trace{TraceID: fid}, false, "")
					noteDrop(fid, false)
					if ref != nil {
						ref.Insert([]byte(fid))
					}
				}
			case "drop":
				tr := &types.Trace{TraceID: id}
				c.Record(tr, false, "")
				noteDrop(id, true)
				if ref != nil {
					ref.Insert([]byte(id))
				}
			case "check_span":
				sp := &types.Span{TraceID: id, Event: &types.Event{Context: context.Background(), Data: types.NewPayload(&config.MockConfig{}, map[string]any{"k": op.ID})}}
				rec, reason, found := c.CheckSpan(sp)
				expect(op, "CheckSpan", id, rec, reason, found, true)
			case "check_trace":
				rec, reason, found := c.CheckTrace(id)
				expect(op, "CheckTrace", id, rec, reason, found, true)
			case "resize":
				nc := cfg
				nc.KeptSize = uint(op.N)
				if op.M > 0 {
					// the size of the drop filters created from now on
					follow()
					nc.DroppedSize = uint(op.M)
					if op.M != curCap {
						out.Probe("resize_changes_dropped_size")
					}
					curCap = op.M
				}
				if err := c.Resize(nc); err != nil {
					out.Harness = err.Error()
					return
				}
				if int(op.N) < len(lru) {
					out.Probe("resize_shrinks")
					lru = append([]keptEnt(nil), lru[len(lru)-int(op.N):]...)
				}
				keptCap = int(op.N)
			case "adv":
				time.Sleep(us(op.N))
			}
			out.Step(op.K, op.I)
			out.Logf("op#%d %s trace#%d t=%v lru=%d", op.ID, op.K, op.I, time.Now().Sub(start), len(lru))
		}
		out.SimMicros = int64(time.Now().Sub(start) / time.Microsecond)
		c.Stop()
	})
	if pt != "" && out.Harness == "" {
		out.Harness = "panic: " + pt
	}
	return out
}

var _ = fmt.Sprintf
