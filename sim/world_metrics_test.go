//go:build verif

package verifsim

import (
	"bytes"
	"fmt"
	"runtime"
	"strings"
	"sync"
	"testing"
	"time"

	"github.com/anishathalye/porcupine"

	"github.com/honeycombio/refinery/config"
	"github.com/honeycombio/refinery/internal/simhook"
	"github.com/honeycombio/refinery/metrics"
)

// ---------------------------------------------------------------------------
// TaskSched: cooperative scheduler for simulated client tasks. Each task is a
// real goroutine inside the bubble, but exactly one runs at a time: a task
// runs until it reaches a yield point (simhook.Yield inside refinery, or an
// explicit Yield between operations), parks there, and the scheduler picks
// the next task to resume from the plan seed.

type simTask struct {
	id     int
	resume chan struct{}
	parked chan string
	done   bool
	// resumed but neither parked nor finished: it is blocked on a lock held
	// by a parked task and goes on by itself once the lock is released
	background bool
	goid       int64
}

type TaskSched struct {
	Seed   uint64
	Out    *Outcome
	mu     sync.Mutex
	byGoid map[int64]*simTask
	tasks  []*simTask
	seq    int64 // global event sequence (invoke/return stamps)
	steps  int
	stuck  int
	// Bias: probability (0..1) of continuing the same task at a yield
	Stickiness float64
}

func NewTaskSched(seed uint64, out *Outcome) *TaskSched {
	return &TaskSched{Seed: seed, Out: out, byGoid: map[int64]*simTask{}}
}

func (s *TaskSched) Stamp() int64 {
	s.mu.Lock()
	defer s.mu.Unlock()
	s.seq++
	return s.seq
}

func (s *TaskSched) Go(id int, fn func()) {
	t := &simTask{id: id, resume: make(chan struct{}), parked: make(chan string)}
	s.tasks = append(s.tasks, t)
	ready := make(chan struct{})
	go func() {
		s.mu.Lock()
		t.goid = goid()
		s.byGoid[t.goid] = t
		s.mu.Unlock()
		close(ready)
		<-t.resume
		fn()
		t.parked <- "\x00done"
	}()
	<-ready
}

// Yield is installed as the simhook; calls from goroutines that are not tasks return at once.
func (s *TaskSched) Yield(site string) {
	s.mu.Lock()
	t := s.byGoid[goid()]
	s.mu.Unlock()
	if t == nil {
		return
	}
	t.parked <- site
	<-t.resume
}

// settleBackground: a task that was found blocked on a lock goes on by itself
// the moment the lock is released to it. Before anybody else is resumed it must
// have come to rest again - at its next yield point, or on a lock once more:
// otherwise the task resumed next could take the lock from under it (Go's mutex
// lets a running goroutine overtake one that has been woken but has not run
// yet), and which of the two wins would be the Go scheduler's choice.
func (s *TaskSched) settleBackground() {
	for _, t := range s.tasks {
		if t.done || !t.background {
			continue
		}
		still := 0
		for i := 1; still < 3; i++ {
			runtime.Gosched()
			if i%500 != 0 {
				continue
			}
			st := goroutineState(t.goid)
			switch {
			case st == "" || strings.HasPrefix(st, "chan send"):
				still = 3 // gone, or parked at a yield point
			case strings.HasPrefix(st, "sync.Mutex") || strings.HasPrefix(st, "sync.RWMutex") || strings.HasPrefix(st, "semacquire"):
				still++
			case strings.HasPrefix(st, "running") || strings.HasPrefix(st, "runnable"):
				still = 0
			default:
				still++ // blocked elsewhere (a timer, the network double): not ours to wait for
			}
		}
	}
}

func (s *TaskSched) Run() {
	last := -1
	for {
		s.settleBackground()
		var runnable []*simTask
		for _, t := range s.tasks {
			if !t.done {
				runnable = append(runnable, t)
			}
		}
		if len(runnable) == 0 {
			return
		}
		s.steps++
		var pick *simTask
		if last >= 0 && HF(s.Seed, "stick", s.steps) < s.Stickiness {
			for _, t := range runnable {
				if t.id == last {
					pick = t
				}
			}
		}
		if pick == nil {
			pick = runnable[H(s.Seed, "sched", s.steps)%uint64(len(runnable))]
		}
		if pick.id != last && last >= 0 {
			s.Out.Probe("task_switch")
		}
		last = pick.id
		if !pick.background {
			pick.resume <- struct{}{}
		}
		site, ok := s.await(pick)
		if !ok {
			// not at a yield point and not finished: blocked on a lock that a
			// parked task holds. Let it be and schedule someone else.
			pick.background = true
			s.Out.Probe("task_blocked_on_lock")
			if stepLog {
				s.Out.Logf("TASK %d blocked on a lock (sched step %d)", pick.id, s.steps)
			}
			s.stuck++
			if s.stuck > 10000 {
				s.Out.Harness = "TaskSched: tasks blocked forever (deadlock among simulated tasks)"
				return
			}
			continue
		}
		s.stuck = 0
		pick.background = false
		if site == "\x00done" {
			pick.done = true
		} else {
			s.Out.Sig = mix64(s.Out.Sig ^ H(pick.id, site))
			s.Out.Steps++
			if stepLog {
				s.Out.Logf("TASK %d at %s (sched step %d, %d runnable)", pick.id, site, s.steps, len(runnable))
			}
			if site != "between" {
				s.Out.Probe("preempted_inside_operation")
			}
		}
	}
}

// await waits for t to reach a yield point or finish. Whether a task that has
// done neither is blocked on a lock (held by a parked task) or merely still
// busy is read off the runtime's own goroutine state, not guessed from elapsed
// time: a slow machine must not turn a busy task into a "blocked" one, because
// the scheduler would then let a second task run beside it.
func (s *TaskSched) await(t *simTask) (string, bool) {
	waiting := 0
	for i := 1; ; i++ {
		select {
		case site := <-t.parked:
			return site, true
		default:
			runtime.Gosched()
		}
		if i%2000 == 0 {
			st := goroutineState(t.goid)
			if strings.HasPrefix(st, "sync.Mutex") || strings.HasPrefix(st, "sync.RWMutex") || strings.HasPrefix(st, "semacquire") {
				// A lock held by a parked task is never released; one held by a
				// goroutine that is no task (a pubsub delivery in the middle of its own
				// reload) is, in a moment. Only a wait that lasts counts as blocked.
				if waiting++; waiting < 5 || bubbleBusy() {
					continue
				}
				// make sure it has not just moved on
				select {
				case site := <-t.parked:
					return site, true
				default:
				}
				return "", false
			}
			waiting = 0
		}
	}
}

var stackBuf = make([]byte, 1<<20)

// bubbleBusy reports whether any goroutine of the bubble other than the caller
// is running or runnable: somebody who may be about to release the lock a task
// is waiting for.
func bubbleBusy() bool {
	me := []byte(fmt.Sprintf("goroutine %d [", goid()))
	n := runtime.Stack(stackBuf, true)
	for _, g := range bytes.Split(stackBuf[:n], []byte("\n\n")) {
		hdr := g
		if k := bytes.IndexByte(g, '\n'); k >= 0 {
			hdr = g[:k]
		}
		if !bytes.Contains(hdr, []byte("synctest bubble")) || bytes.HasPrefix(hdr, me) {
			continue
		}
		if bytes.Contains(hdr, []byte("[running")) || bytes.Contains(hdr, []byte("[runnable")) {
			return true
		}
	}
	return false
}

// goroutineState returns the wait state the runtime reports for a goroutine
// ("running", "runnable", "sync.Mutex.Lock", "chan send (durable), synctest bubble 1", ...).
func goroutineState(id int64) string {
	n := runtime.Stack(stackBuf, true)
	hdr := []byte(fmt.Sprintf("goroutine %d [", id))
	b := stackBuf[:n]
	i := bytes.Index(b, hdr)
	for i > 0 && b[i-1] != '\n' {
		j := bytes.Index(b[i+1:], hdr)
		if j < 0 {
			return ""
		}
		i += 1 + j
	}
	if i < 0 {
		return ""
	}
	rest := b[i+len(hdr):]
	if k := bytes.IndexByte(rest, ']'); k >= 0 {
		return string(rest[:k])
	}
	return ""
}

// ---------------------------------------------------------------------------
// C33: the metrics store reports what was recorded.

func init() {
	Register(&Check{
		ID: "C33", World: "E/metrics", Gen: genMetrics, Run: runMetrics,
		OwnProbes: []string{"reregister_after_use", "preempted_inside_operation", "get_of_used_metric", "call_ended_in_backend_panic"},
		Real:      []string{"metrics.MultiMetrics (Register, Increment, Count, Gauge, Up, Down, Store, Get)"},
		Stub:      []string{"metric backends (a double that panics in plan-chosen calls, where Prometheus/OTel would be)", "config (MockConfig)", "task scheduling (cooperative TaskSched at simhook yield points)"},
	})
}

type mName struct {
	name string
	typ  metrics.MetricType
	kind string // counter gauge updown store
}

var mNames = []mName{
	{"c1", metrics.Counter, "counter"}, {"c2", metrics.Counter, "counter"},
	{"g1", metrics.Gauge, "gauge"}, {"u1", metrics.UpDown, "updown"}, {"s1", 0, "store"},
}

func genMetrics(r *Rng, tier string, p *Plan) {
	clients := r.Range(1, 4)
	p.N["clients"] = int64(clients)
	p.N["stick_pct"] = int64(PickOf(r, 0, 30, 60, 85))
	n := r.Range(4, 24)
	if tier == "thorough" {
		n = r.Range(4, 40)
	}
	names := mNames[:r.Range(2, len(mNames))]
	// some names are registered up front, as components do at start-up
	for i, nm := range names {
		if nm.kind != "store" && r.Bool(0.6) {
			p.Add(Op{K: "register", I: -1, J: int64(i)})
		}
	}
	bit := int64(0)
	for i := 0; i < n; i++ {
		c := int64(r.Intn(clients))
		j := int64(r.Intn(len(names)))
		nm := names[j]
		if r.Bool(0.3) {
			p.Add(Op{K: "get", I: c, J: j})
			continue
		}
		if r.Bool(0.2) {
			// (a stored value's name may be registered too, as a gauge)
			p.Add(Op{K: "register", I: c, J: j})
			continue
		}
		switch nm.kind {
		case "counter":
			if r.Bool(0.3) {
				p.Add(Op{K: "inc", I: c, J: j})
			} else {
				bit++
				p.Add(Op{K: "count", I: c, J: j, N: int64(1) << (bit + 8), B: r.Bool(0.12)}) // unique, attributable increments; B: the backend rejects this call
			}
		case "gauge":
			p.Add(Op{K: "gauge", I: c, J: j, N: int64(i)*7 + 3})
		case "updown":
			p.Add(Op{K: PickOf(r, "up", "up", "down"), I: c, J: j, B: r.Bool(0.08)})
		case "store":
			p.Add(Op{K: "store", I: c, J: j, N: int64(i)*11 + 5})
		}
	}
}

// faultyBackend is a child backend of the MultiMetrics (where Prometheus or
// OTel metrics would be): it does nothing, except that it panics in the call
// the plan marked - a backend rejecting what it is given.
type faultyBackend struct {
	mu   sync.Mutex
	fail map[int64]bool // goroutine ids whose next backend call panics
}

func (b *faultyBackend) maybe() {
	g := goid()
	b.mu.Lock()
	f := b.fail[g]
	delete(b.fail, g)
	b.mu.Unlock()
	if f {
		panic("backend rejects this call")
	}
}
func (b *faultyBackend) Register(metrics.Metadata) {}
func (b *faultyBackend) Increment(string)          { b.maybe() }
func (b *faultyBackend) Gauge(string, float64)     { b.maybe() }
func (b *faultyBackend) Count(string, int64)       { b.maybe() }
func (b *faultyBackend) Histogram(string, float64) {}
func (b *faultyBackend) Up(string)                 { b.maybe() }
func (b *faultyBackend) Down(string)               { b.maybe() }

type mIn struct {
	op   string
	name string
	arg  float64
}
type mOut struct {
	val float64
	ok  bool
}
type mState struct {
	known bool // registered or used
	val   float64
}

var metricsModel = porcupine.Model{
	Partition: func(history []porcupine.Operation) [][]porcupine.Operation {
		m := map[string][]porcupine.Operation{}
		var order []string
		for _, o := range history {
			n := o.Input.(mIn).name
			if _, ok := m[n]; !ok {
				order = append(order, n)
			}
			m[n] = append(m[n], o)
		}
		var out [][]porcupine.Operation
		for _, n := range order {
			out = append(out, m[n])
		}
		return out
	},
	Init: func() interface{} { return mState{} },
	Step: func(state, input, output interface{}) (bool, interface{}) {
		st := state.(mState)
		in := input.(mIn)
		switch in.op {
		case "register":
			st.known = true // registration never changes a value
		case "inc":
			st.known, st.val = true, st.val+1
		case "count":
			st.known, st.val = true, st.val+in.arg
		case "up":
			st.known, st.val = true, st.val+1
		case "down":
			st.known, st.val = true, st.val-1
		case "gauge", "store":
			st.known, st.val = true, in.arg
		case "get":
			o := output.(mOut)
			if st.known {
				return o.ok && o.val == st.val, st
			}
			return !o.ok || o.val == 0, st
		}
		return true, st
	},
	Equal: func(a, b interface{}) bool { return a.(mState) == b.(mState) },
	DescribeOperation: func(input, output interface{}) string {
		in := input.(mIn)
		if in.op == "get" {
			o := output.(mOut)
			return fmt.Sprintf("get(%s)->(%v,%v)", in.name, o.val, o.ok)
		}
		return fmt.Sprintf("%s(%s,%v)", in.op, in.name, in.arg)
	},
}

func execOp(mm *metrics.MultiMetrics, nm mName, op Op, o *mOut, hmu *sync.Mutex, used map[string]bool, out *Outcome) {
	switch op.K {
	case "register":
		hmu.Lock()
		if used[nm.name] {
			out.Probe("reregister_after_use")
		}
		hmu.Unlock()
		// components describe a metric in their own words: the same name and type
		// arrive with different descriptions and units
		typ := nm.typ
		if nm.kind == "store" {
			typ = metrics.Gauge
		}
		mm.Register(metrics.Metadata{Name: nm.name, Type: typ, Description: []string{"", "as the collector sees it", "as the router sees it"}[op.ID%3], Unit: []metrics.Unit{metrics.Dimensionless, metrics.Bytes}[op.ID%2]})
	case "inc":
		mm.Increment(nm.name)
	case "count":
		mm.Count(nm.name, op.N)
	case "gauge":
		mm.Gauge(nm.name, float64(op.N))
	case "up":
		mm.Up(nm.name)
	case "down":
		mm.Down(nm.name)
	case "store":
		mm.Store(nm.name, float64(op.N))
	case "get":
		o.val, o.ok = mm.Get(nm.name)
		hmu.Lock()
		if used[nm.name] {
			out.Probe("get_of_used_metric")
		}
		hmu.Unlock()
	}
}

func runMetrics(t *testing.T, p *Plan) *Outcome {
	out := NewOutcome()
	var hist []porcupine.Operation
	var unsure []int // indices into hist of calls that ended in a panic
	pt := InBubble(t, func() {
		mm := metrics.NewMultiMetrics()
		mm.Config = &config.MockConfig{}
		if err := mm.Start(); err != nil {
			out.Harness = err.Error()
			return
		}
		backend := &faultyBackend{fail: map[int64]bool{}}
		mm.AddChild(backend)
		sched := NewTaskSched(p.Seed, out)
		sched.Stickiness = float64(p.N["stick_pct"]) / 100
		simhook.SetYield(sched.Yield)
		defer simhook.SetYield(nil)
		var hmu sync.Mutex
		used := map[string]bool{}
		exec := func(client int, op Op) {
			nm := mNames[op.J]
			in := mIn{op: op.K, name: nm.name, arg: float64(op.N)}
			var o mOut
			call := sched.Stamp()
			panicked := false
			if op.B {
				backend.mu.Lock()
				backend.fail[goid()] = true
				backend.mu.Unlock()
				out.Fault("backend_rejects_call")
			}
			func() {
				defer func() {
					if r := recover(); r != nil {
						panicked = true
					}
				}()
				execOp(mm, nm, op, &o, &hmu, used, out)
			}()
			backend.mu.Lock()
			delete(backend.fail, goid())
			backend.mu.Unlock()
			ret := sched.Stamp()
			hmu.Lock()
			if op.K != "get" && op.K != "register" {
				used[nm.name] = true
			}
			if panicked {
				// a call that panicked did not complete: whether it recorded anything is
				// not specified, so both readings are tried below
				out.Probe("call_ended_in_backend_panic")
				unsure = append(unsure, len(hist))
			}
			hist = append(hist, porcupine.Operation{ClientId: client, Input: in, Call: call, Output: o, Return: ret})
			hmu.Unlock()
		}
		// start-up registrations run before the clients
		for _, op := range p.Ops {
			if op.I == -1 {
				exec(99, op)
			}
		}
		nc := int(p.N["clients"])
		for c := 0; c < nc; c++ {
			c := c
			sched.Go(c, func() {
				for _, op := range p.Ops {
					if int(op.I) != c {
						continue
					}
					exec(c, op)
					sched.Yield("between")
				}
			})
		}
		sched.Run()
		for _, h := range hist {
			out.Logf("c%d [%d,%d] %s", h.ClientId, h.Call, h.Return, metricsModel.DescribeOperation(h.Input, h.Output))
		}
	})
	if pt != "" {
		out.Harness = "panic: " + pt
		return out
	}
	if out.Harness != "" {
		return out
	}
	// checked outside the bubble: porcupine's timeout must be real time
	res := porcupine.Illegal
	if len(unsure) > 10 {
		// more calls ended in a backend panic than readings can be enumerated for
		// (2^n histories): the run is not judged. (An earlier version judged it
		// with only the first six calls left open, which reported a history with
		// seven panicked calls as not linearizable on the unchanged tree.)
		out.Probe("too_many_panicked_calls_to_judge")
		return out
	}
	// every reading of the calls that panicked: each either took effect or did not
	for mask := 0; mask < 1<<len(unsure) && res == porcupine.Illegal; mask++ {
		drop := map[int]bool{}
		for b, idx := range unsure {
			if mask&(1<<b) != 0 {
				drop[idx] = true
			}
		}
		var h []porcupine.Operation
		for i, o := range hist {
			if !drop[i] {
				h = append(h, o)
			}
		}
		res = porcupine.CheckOperationsTimeout(metricsModel, h, 20*time.Second)
	}
	switch res {
	case porcupine.Illegal:
		out.Violate("C33", "history_not_linearizable", "metrics.MultiMetrics", "the recorded history of %d operations has no linearization under the sequential model (counter=sum of increments, gauge=last value, updown=ups-downs, Register never changes a value); see log", len(hist))
	case porcupine.Unknown:
		out.Probe("porcupine_inconclusive")
	default:
		out.Probe("history_checked")
	}
	return out
}
