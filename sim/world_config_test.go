//go:build verif

package verifsim

import (
	"bytes"
	"fmt"
	"io"
	"net/http"
	"os"
	"path/filepath"
	"sync"
	"testing"
	"time"

	"github.com/honeycombio/refinery/config"
	"github.com/honeycombio/refinery/internal/configwatcher"
	"github.com/honeycombio/refinery/internal/simhook"
	"github.com/honeycombio/refinery/logger"
)

// C27: config reloads apply exactly the acceptable changes.
//
// Real: config.fileConfig (NewConfig, Reload, validation, hashing, getters) on
// real temporary files; internal/configwatcher.ConfigWatcher (timer on the
// bubble clock, pub/sub listener) in the sequential runs.
// Oracle: differential against startup. Every Reload is observed at its entry
// (simhook); at that moment a fresh config.NewConfig on the same files says
// whether startup would accept them, and with which hashes/values. Folding
// those observations in order gives the expected running config and the
// expected number of listener notifications (once per listener per applied
// change). In concurrent runs 2-3 trigger tasks and writer tasks are
// interleaved by the seeded TaskSched at the yield points inside Reload.

func init() {
	Register(&Check{
		ID: "C27", World: "E/config-reload", Gen: genConfig, Run: runConfig,
		OwnProbes: []string{"applied_change", "rejected_invalid", "warning_only_content", "unchanged_content", "concurrent_reloads_interleaved", "unreadable_file", "fetch_in_flight", "newest_content_checked_after_overlapping_reloads", "timer_liveness_checked"},
		Real:      []string{"config.fileConfig (NewConfig, Reload, validation, hashing, getters)", "internal/configwatcher.ConfigWatcher (sequential runs)", "real temporary files, or the same served through http.DefaultClient's transport (URL sources)"},
		Stub:      []string{"pubsub (SimPubSub)", "clock (bubble clock)", "task scheduling (TaskSched at simhook yield points in Reload)"},
	})
}

var cfgVariants = []string{
	0: "General:\n  ConfigurationVersion: 2\n  ConfigReloadInterval: 1s\nTraces:\n  SendDelay: 2s\n",
	1: "General:\n  ConfigurationVersion: 2\n  ConfigReloadInterval: 1s\nTraces:\n  SendDelay: 3s\n",
	2: "General:\n  ConfigurationVersion: 2\n  ConfigReloadInterval: 1s\nTraces:\n  SendDelay: 4s\nCollection:\n  CacheCapacity: 1000\n", // deprecated setting: warning only
	3: "General:\n  ConfigurationVersion: 2\n  ConfigReloadInterval: 1s\nTraces:\n  SendDelay: notaduration\n",                           // invalid
	4: "General:\n  ConfigurationVersion: 2\n  ConfigReloadInterval: 1s\nTraces:\n  SendDelay: [",                                        // torn write
	5: "\x00unreadable",
	6: "General:\n  ConfigurationVersion: 2\n  ConfigReloadInterval: 1s\nTraces:\n  SendDelay: 5s\n",
	7: "General:\n  ConfigurationVersion: 2\n  ConfigReloadInterval: 1s\nTraces:\n  SendDelay: 6s\n  NoSuchSetting: 1\n",                 // unknown field
	8: "General:\n  ConfigurationVersion: 2\n  ConfigReloadInterval: 1s\nTraces:\n  SendDelay: 7s\nCollection:\n  CacheCapacity: 2000\n", // another warning-only content
}

var rulesVariants = []string{
	0: "RulesVersion: 2\nSamplers:\n  __default__:\n    DeterministicSampler:\n      SampleRate: 1\n",
	1: "RulesVersion: 2\nSamplers:\n  __default__:\n    DeterministicSampler:\n      SampleRate: 10\n",
	2: "RulesVersion: 2\nSamplers:\n  __default__:\n    DeterministicSampler:\n      SampleRate: -3\n", // invalid
	3: "RulesVersion: 2\nSamplers:\n  __default__:\n    DynamicSampler:\n      SampleRate: 5\n      FieldList:\n        - a\n",
	4: "RulesVersion: 2\nSamplers:\n  __default__:\n    NoSuchSampler:\n      SampleRate: 5\n", // invalid
	5: "\x00unreadable",
}

func genConfig(r *Rng, tier string, p *Plan) {
	conc := r.Bool(0.5)
	if conc {
		p.N["concurrent"] = 1
		p.N["stick_pct"] = int64(PickOf(r, 0, 30, 60))
		if r.Bool(0.5) {
			// configuration and rules are fetched from URLs: the fetch is a point
			// where a reload can be overtaken
			p.N["url"] = 1
		}
		// tasks: triggers and writers
		nt := r.Range(2, 3)
		nw := r.Range(0, 2)
		for i := 0; i < nt; i++ {
			p.Add(Op{K: "trigger", I: int64(i)})
			if r.Bool(0.3) {
				p.Add(Op{K: "trigger", I: int64(i)})
			}
		}
		for i := 0; i < nw; i++ {
			if r.Bool(0.7) {
				p.Add(Op{K: "write", I: int64(10 + i), S: "cfg", N: int64(PickOf(r, 1, 2, 6, 3, 1, 6))})
			} else {
				p.Add(Op{K: "write", I: int64(10 + i), S: "rules", N: int64(PickOf(r, 1, 3, 2))})
			}
		}
		// a write before the tasks start, so that there is something to apply
		p.Add(Op{K: "prewrite", S: "cfg", N: int64(PickOf(r, 1, 6, 2, 0))})
		return
	}
	n := r.Range(3, 14)
	if tier == "thorough" {
		n = r.Range(3, 40)
	}
	now := int64(0)
	for i := 0; i < n; i++ {
		now += PickOf(r, int64(0), 100_000, 500_000, 1_200_000, 2_500_000)
		switch r.Intn(6) {
		case 0, 1, 2:
			if r.Bool(0.65) {
				p.Add(Op{K: "write", At: now, S: "cfg", N: int64(r.Intn(len(cfgVariants)))})
			} else {
				p.Add(Op{K: "write", At: now, S: "rules", N: int64(r.Intn(len(rulesVariants)))})
			}
		case 3, 4:
			p.Add(Op{K: "pubsub", At: now})
		default:
			p.Add(Op{K: "reload", At: now})
		}
	}
}

type cfgWorld struct {
	out      *Outcome
	dir      string
	opts     *config.CmdEnv
	cfg      config.Config
	mu       sync.Mutex
	curCfg   int
	curRules int
	// model (fold over observed reload entries)
	appliedMain, appliedRules string
	appliedDelay              time.Duration
	applies                   int
	// listeners
	calls [2][]string
	// URL sources: the transport lets the scheduler in after it has chosen the body
	fetchYield func()
	quiet      int // >0: the model itself is reading the sources
	// logical time of the last completed write and of each trigger's start
	seq, lastWrite, lastTrigger int
}

// RoundTrip serves cfg.yaml and rules.yaml from the directory over "HTTP".
func (w *cfgWorld) RoundTrip(req *http.Request) (*http.Response, error) {
	b, err := os.ReadFile(filepath.Join(w.dir, filepath.Base(req.URL.Path)))
	if err != nil {
		return nil, fmt.Errorf("source unavailable: %w", err)
	}
	// only after the last source of a reload has been chosen (the rules come
	// second): everything one reload reads is then from one moment, which is
	// the moment the model folds
	if w.quiet == 0 && w.fetchYield != nil && filepath.Base(req.URL.Path) == "rules.yaml" {
		w.out.Probe("fetch_in_flight")
		w.fetchYield()
	}
	return &http.Response{StatusCode: 200, Status: "200 OK", Proto: "HTTP/1.1", ProtoMajor: 1, ProtoMinor: 1,
		Header: http.Header{"Content-Type": {"application/x-yaml"}}, Body: io.NopCloser(bytes.NewReader(b)), Request: req}, nil
}

func (w *cfgWorld) write(target string, v int) {
	path := filepath.Join(w.dir, target+".yaml")
	var content string
	if target == "cfg" {
		content = cfgVariants[v]
		w.curCfg = v
	} else {
		content = rulesVariants[v]
		w.curRules = v
	}
	if content == "\x00unreadable" {
		os.Remove(path)
		w.out.Probe("unreadable_file")
		return
	}
	// write-then-rename would be atomic; an in-place write is what an operator's editor may do
	os.WriteFile(path, []byte(content), 0o644)
}

// onReloadEntry: a Reload is about to read the files. Ask startup what it
// would do with them, and fold that into the expected state.
func (w *cfgWorld) onReloadEntry() {
	w.mu.Lock()
	defer w.mu.Unlock()
	w.quiet++
	defer func() { w.quiet-- }()
	fresh, err := config.NewConfig(w.opts)
	if fresh == nil {
		w.out.Probe("rejected_invalid")
		return
	}
	if err != nil {
		w.out.Probe("warning_only_content")
	}
	mh, rh := fresh.GetHashes()
	if mh == w.appliedMain && rh == w.appliedRules {
		w.out.Probe("unchanged_content")
		return
	}
	w.appliedMain, w.appliedRules = mh, rh
	w.appliedDelay = fresh.GetTracesConfig().GetSendDelay()
	w.applies++
	w.out.Probe("applied_change")
}

func (w *cfgWorld) check(where string) {
	w.mu.Lock()
	defer w.mu.Unlock()
	w.quiet++
	defer func() { w.quiet-- }()
	mh, rh := w.cfg.GetHashes()
	w.out.Logf("%s running=%s/%s expected=%s/%s applies=%d listener_calls=%d,%d files=cfg%d,rules%d", where, short(mh), short(rh), short(w.appliedMain), short(w.appliedRules), w.applies, len(w.calls[0]), len(w.calls[1]), w.curCfg, w.curRules)
	const site = "config.fileConfig.Reload"
	if mh != w.appliedMain || rh != w.appliedRules {
		// which way?
		fresh, err := config.NewConfig(w.opts)
		kind := "running_config_differs_from_expected"
		if fresh != nil {
			fm, fr := fresh.GetHashes()
			if fm == w.appliedMain && fr == w.appliedRules {
				kind = "acceptable_change_not_applied"
				if err != nil {
					kind = "warning_only_change_not_applied"
				}
			}
		}
		w.out.Violate("C27", kind, site, "%s: running config hashes %s/%s, expected %s/%s (files: cfg variant %d, rules variant %d)", where, short(mh), short(rh), short(w.appliedMain), short(w.appliedRules), w.curCfg, w.curRules)
		return
	}
	if d := w.cfg.GetTracesConfig().GetSendDelay(); d != w.appliedDelay {
		w.out.Violate("C27", "running_value_differs_from_expected", site, "%s: SendDelay=%v, expected %v", where, d, w.appliedDelay)
	}
	for i := range w.calls {
		if len(w.calls[i]) != w.applies {
			kind := "listener_notified_too_often"
			if len(w.calls[i]) < w.applies {
				kind = "listener_not_notified"
			}
			w.out.Violate("C27", kind, site, "%s: listener %d was called %d times for %d applied changes (calls: %v)", where, i, len(w.calls[i]), w.applies, w.calls[i])
		}
	}
}

// checkNewest needs no knowledge of how Reload is built: when some trigger began
// after the last change to the sources, and startup would accept the sources as
// they are now, then once every trigger has returned the running configuration
// is that newest content (an overtaken reload must not put older content back).
func (w *cfgWorld) checkNewest() {
	if w.lastTrigger < w.lastWrite {
		return
	}
	w.quiet++
	defer func() { w.quiet-- }()
	fresh, _ := config.NewConfig(w.opts)
	if fresh == nil {
		return
	}
	w.out.Probe("newest_content_checked_after_overlapping_reloads")
	fm, fr := fresh.GetHashes()
	if mh, rh := w.cfg.GetHashes(); mh != fm || rh != fr {
		w.out.Violate("C27", "newest_change_lost", "config.fileConfig.Reload", "every trigger has returned and one of them began after the last change to the sources, but the running config is %s/%s and the sources hold %s/%s (cfg variant %d, rules variant %d)", short(mh), short(rh), short(fm), short(fr), w.curCfg, w.curRules)
	}
}

func short(h string) string {
	if len(h) > 6 {
		return h[:6]
	}
	return h
}

func runConfig(t *testing.T, p *Plan) *Outcome {
	out := NewOutcome()
	dir, err := os.MkdirTemp("", "verif-c27-")
	if err != nil {
		out.Harness = err.Error()
		return out
	}
	defer os.RemoveAll(dir)
	pt := InBubble(t, func() {
		w := &cfgWorld{out: out, dir: dir}
		w.write("cfg", 0)
		w.write("rules", 0)
		w.opts = &config.CmdEnv{ConfigLocations: []string{filepath.Join(dir, "cfg.yaml")}, RulesLocations: []string{filepath.Join(dir, "rules.yaml")}}
		if p.On("url") {
			w.opts = &config.CmdEnv{ConfigLocations: []string{"http://config-source/cfg.yaml"}, RulesLocations: []string{"http://config-source/rules.yaml"}}
			old := http.DefaultClient.Transport
			http.DefaultClient.Transport = w
			defer func() { http.DefaultClient.Transport = old }()
			out.Probe("sources_are_urls")
		}
		cfg, err := config.NewConfig(w.opts)
		if cfg == nil {
			out.Harness = fmt.Sprintf("base config rejected: %v", err)
			return
		}
		w.cfg = cfg
		w.appliedMain, w.appliedRules = cfg.GetHashes()
		w.appliedDelay = cfg.GetTracesConfig().GetSendDelay()
		for i := range w.calls {
			i := i
			cfg.RegisterReloadCallback(func(a, b string) {
				w.mu.Lock()
				w.calls[i] = append(w.calls[i], short(a)+"/"+short(b))
				w.mu.Unlock()
			})
		}
		defer simhook.SetYield(nil)
		if p.On("concurrent") {
			sched := NewTaskSched(p.Seed, out)
			sched.Stickiness = float64(p.N["stick_pct"]) / 100
			w.fetchYield = func() { sched.Yield("config.fetch") }
			simhook.SetYield(func(site string) {
				sched.Yield(site)
				if site == "config.Reload.read" {
					w.onReloadEntry()
				}
			})
			for _, op := range p.Ops {
				if op.K == "prewrite" {
					w.write(op.S, int(op.N))
				}
			}
			tasks := map[int64][]Op{}
			var order []int64
			for _, op := range p.Ops {
				if op.K == "prewrite" {
					continue
				}
				if _, ok := tasks[op.I]; !ok {
					order = append(order, op.I)
				}
				tasks[op.I] = append(tasks[op.I], op)
			}
			for _, id := range order {
				ops := tasks[id]
				sched.Go(int(id), func() {
					for _, op := range ops {
						switch op.K {
						case "trigger":
							w.seq++
							w.lastTrigger = w.seq
							cfg.Reload()
						case "write":
							w.write(op.S, int(op.N))
							w.seq++
							w.lastWrite = w.seq
						}
						sched.Yield("between")
					}
				})
			}
			sched.Run()
			if out.Probes["task_switch"] > 0 && out.Probes["preempted_inside_operation"] > 0 {
				out.Probe("concurrent_reloads_interleaved")
			}
			w.fetchYield = nil
			w.check("after all concurrent triggers")
			w.checkNewest()
			return
		}
		// sequential history through the real watcher
		clk := NewSimClock("cfg")
		drv := NewDriver(out, p.Seed, clk)
		bus := NewSimBus(drv, out, p.Seed)
		cw := &configwatcher.ConfigWatcher{Config: cfg, Logger: &logger.NullLogger{}, PubSub: bus.Endpoint("n0"), Clock: clk}
		simhook.SetYield(func(site string) {
			if site == "config.Reload.read" {
				w.onReloadEntry()
			}
		})
		if err := cw.Start(); err != nil {
			out.Harness = err.Error()
			return
		}
		drv.Settle()
		topic := cw.PubSub.FormatTopic(configwatcher.ConfigPubsubTopic)
		var last int64
		for _, op := range p.Ops {
			op := op
			if op.At > last {
				last = op.At
			}
			drv.AtSig(us(op.At), op.K, fmt.Sprintf("op/%d", op.ID), fmt.Sprintf("%s%d", op.S, op.N), func() {
				switch op.K {
				case "write":
					w.write(op.S, int(op.N))
				case "pubsub":
					bus.Inject("other-node", topic, time.Now().Format(time.RFC3339))
				case "reload":
					cfg.Reload()
				}
			})
		}
		drv.AfterStep = func(kind, ident string) { w.check(fmt.Sprintf("after %s %s t=%v", kind, ident, drv.Elapsed())) }
		// the watcher's own timer fires on the bubble clock while the driver sleeps;
		// check in between as well
		for ts := int64(250_000); ts < last+3_000_000; ts += 250_000 {
			drv.At(us(ts), "probe", fmt.Sprintf("probe/%d", ts), func() {})
		}
		drv.Run(us(last) + 3*time.Second)
		// liveness once changes have stopped: the watcher's timer (ConfigReloadInterval
		// is 1s in every acceptable content) has had three periods since the last
		// operation; whatever startup would accept now is what runs
		w.mu.Lock()
		w.quiet++
		fresh, _ := config.NewConfig(w.opts)
		w.quiet--
		w.mu.Unlock()
		if fresh != nil {
			out.Probe("timer_liveness_checked")
			fm, fr := fresh.GetHashes()
			if mh, rh := w.cfg.GetHashes(); mh != fm || rh != fr {
				out.Violate("C27", "acceptable_content_never_applied", "internal/configwatcher.ConfigWatcher", "3s after the last operation (reload interval 1s) the running config is %s/%s but the files hold %s/%s, which startup accepts (cfg variant %d, rules variant %d)", short(mh), short(rh), short(fm), short(fr), w.curCfg, w.curRules)
			}
		}
		cw.Stop()
		drv.Settle()
	})
	if pt != "" && out.Harness == "" {
		out.Harness = "panic: " + pt
	}
	return out
}
