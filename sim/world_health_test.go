//go:build verif

package verifsim

import (
	"fmt"
	"sort"
	"testing"
	"time"

	"github.com/honeycombio/refinery/internal/health"
	"github.com/honeycombio/refinery/logger"
)

// hookLogger is the Logger given to Health: a NullLogger whose next Info() call
// runs something first. Health logs when a report changes a subsystem's state;
// that call sits in the middle of Ready and is the seam for "an Unregister (or
// another report) overlaps a Ready".
type hookLogger struct {
	logger.NullLogger
	hook func()
}

func (l *hookLogger) Info() logger.Entry {
	if h := l.hook; h != nil {
		l.hook = nil
		h()
	}
	return l.NullLogger.Info()
}

// C30: liveness and readiness follow subsystem reports within one tick.
//
// Real: internal/health.Health (its ticker goroutine runs on a SimClock ticker
// that the driver delivers). Oracle from the statement:
//   - a registered subsystem whose reports are spaced < timeout-500ms is never
//     reported dead; one silent > timeout+500ms is dead until it reports again;
//     in between either answer is allowed;
//   - IsReady only if >=1 registered, all registered reported ready, none
//     currently unregistered (one-directional, as stated).

func init() {
	Register(&Check{
		ID: "C30", World: "E/health", Gen: genHealth, Run: runHealth,
		OwnProbes: []string{"must_be_dead_checked", "must_be_alive_checked_late", "ready_true_checked", "reregister", "unregister_landed_inside_ready"},
		Real:      []string{"internal/health.Health (Register/Ready/Unregister/IsAlive/IsReady and its ticker loop)"},
		Stub:      []string{"clock (SimClock: the 500ms health ticker is delivered by the driver)", "metrics (NullMetrics)", "logger (NullLogger with a hook on Info: the seam for an Unregister overlapping a Ready)"},
	})
}

var healthSubs = []string{"collector", "router", "peers"}

func genHealth(r *Rng, tier string, p *Plan) {
	n := r.Range(4, 18)
	if tier == "thorough" {
		n = r.Range(4, 50)
	}
	p.N["phase_us"] = r.I64n(500_000)
	timeouts := map[string]int64{}
	last := map[string]int64{}
	now := int64(0)
	for i := 0; i < n; i++ {
		// advance
		var dt int64
		switch r.Intn(4) {
		case 0:
			dt = r.I64n(300_000)
		case 1:
			dt = r.I64n(2_500_000)
		default:
			// aim at a boundary of some subsystem
			var cands []int64
			for s, t := range timeouts {
				if l, ok := last[s]; ok {
					for _, b := range []int64{l + t - 500_000, l + t + 500_000, l + t} {
						for _, e := range []int64{-1000, 0, 1000} {
							if b+e > now {
								cands = append(cands, b+e-now)
							}
						}
					}
				}
			}
			sort.Slice(cands, func(i, j int) bool { return cands[i] < cands[j] })
			if len(cands) > 0 {
				dt = cands[r.Intn(len(cands))]
			} else {
				dt = r.I64n(1_000_000)
			}
		}
		now += dt
		s := PickOf(r, healthSubs...)
		switch r.Intn(10) {
		case 0, 1:
			t := PickOf(r, int64(500_000), 700_000, 1_000_000, 1_200_000, 1_999_000, 3_000_000)
			p.Add(Op{K: "register", At: now, S: s, N: t})
			timeouts[s] = t
			delete(last, s)
		case 2:
			p.Add(Op{K: "unregister", At: now, S: s})
			delete(timeouts, s)
			delete(last, s)
		case 3:
			if r.Bool(0.5) {
				// a report that changes the subsystem's state, overlapped by its Unregister
				p.Add(Op{K: "ready_during_unregister", At: now, S: s})
				delete(timeouts, s)
				delete(last, s)
				break
			}
			p.Add(Op{K: "query", At: now})
		default:
			p.Add(Op{K: "ready", At: now, S: s, B: r.Bool(0.75)})
			if _, ok := timeouts[s]; ok {
				last[s] = now
			}
		}
	}
}

type hsub struct {
	registered bool
	everUnreg  bool // currently unregistered after having been registered
	timeout    time.Duration
	reported   bool
	lastReport time.Time
	lastReady  bool
}

func runHealth(t *testing.T, p *Plan) *Outcome {
	out := NewOutcome()
	pt := InBubble(t, func() {
		clk := NewSimClock("h")
		drv := NewDriver(out, p.Seed, clk)
		start := time.Now()
		time.Sleep(us(p.N["phase_us"])) // phase of the health ticker relative to the ops
		hl := &hookLogger{}
		h := &health.Health{Clock: clk, Logger: hl}
		h.Start()
		drv.Settle()
		drv.Start = time.Now()
		_ = start
		model := map[string]*hsub{}
		tick := 500 * time.Millisecond
		check := func(where string) {
			now := time.Now()
			alive, ready := h.IsAlive(), h.IsReady()
			mustDead, allMustAlive := false, true
			nReg := 0
			allReady := true
			anyUnreg := false
			names := make([]string, 0, len(model))
			for n := range model {
				names = append(names, n)
			}
			sort.Strings(names)
			desc := ""
			for _, n := range names {
				s := model[n]
				if s.everUnreg {
					anyUnreg = true
				}
				if !s.registered {
					continue
				}
				nReg++
				if !s.reported || !s.lastReady {
					allReady = false
				}
				if !s.reported {
					allMustAlive = false // unspecified
					continue
				}
				gap := now.Sub(s.lastReport)
				desc += fmt.Sprintf(" %s(gap=%v,timeout=%v)", n, gap, s.timeout)
				if gap > s.timeout+tick {
					mustDead = true
				}
				if !(gap < s.timeout-tick) {
					allMustAlive = false
				}
			}
			out.Logf("%s t=%v alive=%v ready=%v%s", where, now.Sub(drv.Start), alive, ready, desc)
			if mustDead {
				out.Probe("must_be_dead_checked")
				if alive {
					out.Violate("C30", "silent_subsystem_not_reported_dead", "internal/health", "%s: a subsystem has been silent for more than timeout+500ms but IsAlive()=true:%s", where, desc)
				}
			} else if allMustAlive {
				if nReg > 0 {
					out.Probe("must_be_alive_checked")
					for _, n := range names {
						if s := model[n]; s.registered && s.reported && now.Sub(s.lastReport) > tick {
							out.Probe("must_be_alive_checked_late")
						}
					}
				}
				if !alive {
					out.Violate("C30", "reporting_subsystem_reported_dead", "internal/health", "%s: every registered subsystem reported less than timeout-500ms ago but IsAlive()=false:%s", where, desc)
				}
			}
			if ready {
				out.Probe("ready_true_checked")
				if nReg == 0 || !allReady || anyUnreg {
					out.Violate("C30", "ready_without_all_subsystems_ready", "internal/health", "%s: IsReady()=true with registered=%d allReportedReady=%v someUnregistered=%v", where, nReg, allReady, anyUnreg)
				}
			}
		}
		for _, op := range p.Ops {
			op := op
			drv.At(us(op.At), op.K, fmt.Sprintf("op/%d", op.ID), func() {
				s := model[op.S]
				if s == nil && op.S != "" {
					s = &hsub{}
					model[op.S] = s
				}
				switch op.K {
				case "register":
					if s.everUnreg {
						out.Probe("reregister")
					}
					h.Register(op.S, us(op.N))
					*s = hsub{registered: true, timeout: us(op.N)}
				case "unregister":
					h.Unregister(op.S)
					if s.registered {
						s.everUnreg = true
					}
					s.registered, s.reported = false, false
				case "ready_during_unregister":
					// the report flips the ready state (so that Health logs the change);
					// from inside that log call an Unregister of the same subsystem is
					// started on a goroutine of its own: it completes there, or waits for
					// the lock Ready holds and completes right after. Either way both
					// have happened afterwards, and a report for an unregistered
					// subsystem changes nothing: the subsystem is unregistered.
					flip := !(s.registered && s.reported && s.lastReady)
					done := make(chan struct{})
					hl.hook = func() {
						gid := make(chan int64, 1)
						go func() { gid <- goid(); h.Unregister(op.S); close(done) }()
						awaitGoroutine(<-gid, done)
						out.Probe("unregister_landed_inside_ready")
					}
					h.Ready(op.S, flip)
					if hl.hook != nil {
						// Health had nothing to log: the Unregister follows the report
						hl.hook = nil
						h.Unregister(op.S)
						close(done)
					}
					<-done
					if s.registered {
						s.everUnreg = true
					}
					s.registered, s.reported = false, false
				case "ready":
					h.Ready(op.S, op.B)
					if s.registered {
						s.reported, s.lastReport, s.lastReady = true, time.Now(), op.B
					}
				}
			})
		}
		drv.AfterStep = func(kind, ident string) { check(fmt.Sprintf("after %s %s", kind, ident)) }
		var last int64
		for _, op := range p.Ops {
			if op.At > last {
				last = op.At
			}
		}
		drv.Run(us(last) + 4*time.Second)
		h.Stop()
	})
	if pt != "" {
		out.Harness = "panic: " + pt
	}
	return out
}
