//go:build verif

package verifsim

import (
	"bytes"
	"context"
	"encoding/json"
	"fmt"
	"runtime"
	"sort"
	"strings"
	"sync"
	"testing"
	"time"

	"go.opentelemetry.io/otel/attribute"
	"go.opentelemetry.io/otel/trace"
	"go.opentelemetry.io/otel/trace/noop"

	"github.com/honeycombio/refinery/collect"
	"github.com/honeycombio/refinery/config"
	"github.com/honeycombio/refinery/internal/health"
	"github.com/honeycombio/refinery/internal/peer"
	"github.com/honeycombio/refinery/logger"
	"github.com/honeycombio/refinery/metrics"
	"github.com/honeycombio/refinery/pubsub"
	"github.com/honeycombio/refinery/sample"
	"github.com/honeycombio/refinery/sharder"
	"github.com/honeycombio/refinery/types"
)

// World A: the real InMemCollector with its workers, trace buffer, decision
// caches, sampler factory and samplers, on a SimClock, fed span by span by the
// driver. Doubles: recording transmission, MockConfig, mock sharder/peers,
// mock stress reliever, simulated heap reading.

// span kinds
const (
	skChild = iota
	skRoot
	skEvent
	skLink
)

// ---------------------------------------------------------------------------
// recording transmission

type fwdRec struct {
	step    int
	stepK   string
	at      time.Duration
	traceID string
	spanID  string
	rate    uint
	apiKey  string
	dataset string
	host    string
	fields  map[string]any
	ev      *types.Event
}

type recTx struct {
	mu   sync.Mutex
	w    *worldA
	recs []*fwdRec
}

func snapshotFields(p *types.Payload) map[string]any {
	m := map[string]any{}
	for k, v := range p.All() {
		m[k] = v
	}
	return m
}

func (r *recTx) EnqueueEvent(ev *types.Event) { r.record(ev, "") }
func (r *recTx) EnqueueSpan(sp *types.Span)   { r.record(sp.Event, sp.TraceID) }
func (r *recTx) RegisterMetrics()             {}
func (r *recTx) record(ev *types.Event, traceID string) {
	f := snapshotFields(&ev.Data)
	sid, _ := f["span_id"].(string)
	rec := &fwdRec{step: r.w.out.Steps, stepK: r.w.drv.CurKind, at: time.Now().Sub(r.w.start), traceID: traceID, spanID: sid,
		rate: ev.SampleRate, apiKey: ev.APIKey, dataset: ev.Dataset, host: ev.APIHost, fields: f, ev: ev}
	r.mu.Lock()
	r.recs = append(r.recs, rec)
	r.mu.Unlock()
}

// ---------------------------------------------------------------------------
// recording span for makeDecision

type recSpan struct {
	noop.Span
	attrs map[string]attribute.Value
	onEnd func(map[string]attribute.Value)
}

func (s *recSpan) IsRecording() bool { return true }
func (s *recSpan) SetAttributes(kv ...attribute.KeyValue) {
	for _, a := range kv {
		s.attrs[string(a.Key)] = a.Value
	}
}
func (s *recSpan) End(...trace.SpanEndOption) {
	if s.onEnd != nil {
		s.onEnd(s.attrs)
	}
}

// aTracer wraps SimTracer to hand out a recording span for makeDecision.
type aTracer struct {
	*SimTracer
	w *worldA
}

func (t *aTracer) Start(ctx context.Context, name string, opts ...trace.SpanStartOption) (context.Context, trace.Span) {
	ctx, sp := t.SimTracer.Start(ctx, name, opts...)
	if name == "makeDecision" {
		return ctx, &recSpan{attrs: map[string]attribute.Value{}, onEnd: t.w.onDecision}
	}
	return ctx, sp
}

// ---------------------------------------------------------------------------
// model

type spanRec struct {
	op       Op
	traceIdx int
	traceID  string
	spanID   string
	kind     int
	client   uint
	fromPeer bool
	accepted bool
	offered  time.Duration
	procAt   time.Time // when the worker processed it (zero: not yet)
	procStep int
	size     int
	fwd      []*fwdRec
	late     bool         // processed after its trace's decision, decision remembered
	lateOf   *decisionRec // the decision it must follow
	// for a late root: counts the kept record holds once this span is counted
	lateEvents, lateLinks, lateSpans int
}

type decisionRec struct {
	step       int
	stepK      string
	stepIdent  string
	at         time.Time
	traceID    string
	kept       bool
	rate       uint
	reason     string
	sendReason string
	hasRoot    bool
	spans      int // spans processed into the trace when decided (model)
	nEvents    int
	nLinks     int
	nSpans     int
	cfgEpoch   int
	deadline   time.Time
	first      time.Time
	overLimit  bool
	worker     int
	// late spans counted into the kept record so far
	lateEvents, lateLinks, lateSpans int
}

type traceModel struct {
	idx       int
	id        string
	worker    int
	offered   []*spanRec
	processed []*spanRec // accepted and processed by the worker, in order
	// current incarnation (a trace can be re-created after its decision was forgotten)
	first     time.Time
	rootAt    time.Time
	limitAt   time.Time
	deadline  time.Time
	live      bool
	liveSpans int
	decisions []*decisionRec
	forgotten bool // some decision of this trace fell out of the kept capacity and a later span re-created it
}

type cfgEpoch struct {
	step                                int
	hostMeta, ruleReason, spanCnt, cnts bool
	attrs                               map[string]string
	dryRun                              bool
}

// hookStress is the StressReliever double of World A. The collector calls
// UpdateFromConfig in the middle of its reload callback: that call is the seam
// for "a worker makes a decision while a reload is half done".
type hookStress struct {
	*collect.MockStressReliever
	mu     sync.Mutex
	gate   chan struct{}
	parked chan struct{}
}

func (h *hookStress) UpdateFromConfig() {
	h.MockStressReliever.UpdateFromConfig()
	h.mu.Lock()
	gate, parked := h.gate, h.parked
	h.gate, h.parked = nil, nil
	h.mu.Unlock()
	if gate != nil {
		close(parked)
		<-gate
	}
}

func (h *hookStress) arm() (release, parked chan struct{}) {
	h.mu.Lock()
	defer h.mu.Unlock()
	h.gate, h.parked = make(chan struct{}), make(chan struct{})
	return h.gate, h.parked
}

func (h *hookStress) disarm() {
	h.mu.Lock()
	defer h.mu.Unlock()
	h.gate, h.parked = nil, nil
}

// gatedMetrics is the Metrics double the sampler factory gets: MockMetrics whose
// Register can be made to stall when a refinery goroutine registers a sampler's
// metrics - that call sits in the middle of the creation of a shared dynsampler,
// and is the seam for "two workers create the same sampler at the same time".
type gatedMetrics struct {
	*metrics.MockMetrics
	driver int64
	mu     sync.Mutex
	gate   chan struct{}
	parked chan struct{}
}

func (g *gatedMetrics) Register(m metrics.Metadata) {
	g.mu.Lock()
	gate, parked := g.gate, g.parked
	if gate != nil && goid() != g.driver && strings.HasSuffix(m.Name, "_num_kept") {
		g.gate, g.parked = nil, nil
	} else {
		gate = nil
	}
	g.mu.Unlock()
	if gate != nil {
		close(parked)
		<-gate
	}
	g.MockMetrics.Register(m)
}

func (g *gatedMetrics) arm() (release chan struct{}, parked chan struct{}) {
	g.mu.Lock()
	defer g.mu.Unlock()
	g.gate, g.parked = make(chan struct{}), make(chan struct{})
	return g.gate, g.parked
}

func (g *gatedMetrics) disarm() {
	g.mu.Lock()
	defer g.mu.Unlock()
	g.gate, g.parked = nil, nil
}

// gatedPeers is the Peers double of World A: MockPeers whose GetPeers can be
// made to stall, after it has taken its answer, when called from a goroutine
// other than the driver's. That is the seam for "a peer-list lookup overtaken by
// a membership change".
type gatedPeers struct {
	*peer.MockPeers
	driver   int64
	mu       sync.Mutex
	gate     chan struct{} // non-nil: the next foreign GetPeers parks on it
	failing  bool          // GetPeers returns an error
	everRead bool          // some GetPeers call has succeeded
	parked   chan struct{} // closed when a caller has parked
}

func (g *gatedPeers) GetPeers() ([]string, error) {
	l, err := g.MockPeers.GetPeers()
	g.mu.Lock()
	if g.failing {
		// the peer list cannot be had right now (as when the Redis peers cannot
		// work out their own address)
		g.mu.Unlock()
		return nil, fmt.Errorf("peer list unavailable")
	}
	gate, parked := g.gate, g.parked
	if gate != nil && goid() != g.driver {
		g.gate, g.parked = nil, nil
	} else {
		gate = nil
	}
	if err == nil {
		g.everRead = true
	}
	g.mu.Unlock()
	if gate != nil {
		close(parked)
		<-gate
	}
	return l, err
}

// arm makes the next GetPeers from a refinery goroutine stall; it returns the
// channel to close to let it go on and one that is closed once a caller stalls.
func (g *gatedPeers) arm() (release chan struct{}, parked chan struct{}) {
	g.mu.Lock()
	defer g.mu.Unlock()
	g.gate, g.parked = make(chan struct{}), make(chan struct{})
	return g.gate, g.parked
}

func (g *gatedPeers) disarm() {
	g.mu.Lock()
	defer g.mu.Unlock()
	g.gate, g.parked = nil, nil
}

// simConfig is MockConfig with its one wrong getter corrected (the mock's
// GetAddCountsToRoot returns the AddSpanCountToRoot field; the real
// fileConfig returns the right setting).
type simConfig struct{ *config.MockConfig }

func (c simConfig) GetAddCountsToRoot() bool {
	c.Mux.RLock()
	defer c.Mux.RUnlock()
	return c.AddCountsToRoot
}

type worldA struct {
	p      *Plan
	out    *Outcome
	cfg    *config.MockConfig
	clk    *SimClock
	tr     *SimTracer
	drv    *Driver
	coll   *collect.InMemCollector
	tx     *recTx
	met    *metrics.MockMetrics
	peers  *peer.MockPeers
	gpeers *gatedPeers
	stress *hookStress
	gmet   *gatedMetrics
	sf     *sample.SamplerFactory
	hl     *health.Health
	start  time.Time

	traces map[string]*traceModel
	byIdx  map[int]*traceModel
	spans  map[string]*spanRec
	// per-worker FIFO model of the input channels
	qIn, qPeer   map[int][]*spanRec
	epochs       []cfgEpoch
	heapNext     uint64 // simulated heap reading for the next monitor tick (0: below limit)
	ejections    []*ejection
	deferredTick map[int]bool // workers with a send tick waiting in the ticker's channel
	pendingEj    *ejection
	tickLog      []*tickRec
	nWorkers     int
	tt, sd       time.Duration
	lru          map[int][]string // reference model of each worker's kept-decision LRU, oldest first
	keptCap      int
	peerCount    int
	reloadHook   func(op Op) bool // world variants: handle extra reload kinds
	decLog       []*decisionRec
	afterEj      map[int]map[int][]collect.VerifTraceInfo
	mu           sync.Mutex
}

type tickRec struct {
	step   int
	worker int
	at     time.Time
	// undecided traces of this worker with deadline <= at, before the tick
	expired []*traceModel
	maxExp  int
	// deferred: the worker was stalled when the tick fired; the tick waits in the
	// ticker's channel and is judged when the worker handles it (a record with
	// handled set, made at that moment)
	deferred bool
	handled  bool
}

type ejection struct {
	at       time.Time
	step     int
	heap     uint64
	maxAlloc uint64
	before   map[int][]collect.VerifTraceInfo
	stalled  map[int]bool // workers that were parked when the memory check ran
}

func traceIDFor(seed uint64, idx int) string {
	return fmt.Sprintf("%016x%016x", H(seed, "trace", idx), uint64(idx)+1)
}

func samplerPreset(i int64) (any, string) {
	switch i {
	case 0:
		return &config.DeterministicSamplerConfig{SampleRate: 1}, "DeterministicSampler"
	case 1:
		return &config.DeterministicSamplerConfig{SampleRate: 2}, "DeterministicSampler"
	case 2:
		return &config.DeterministicSamplerConfig{SampleRate: 5}, "DeterministicSampler"
	case 3:
		return &config.DynamicSamplerConfig{SampleRate: 3, FieldList: []string{"f1"}, ClearFrequency: config.Duration(2 * time.Second)}, "DynamicSampler"
	case 4:
		return &config.EMADynamicSamplerConfig{GoalSampleRate: 3, FieldList: []string{"f1"}, AdjustmentInterval: config.Duration(2 * time.Second), Weight: 0.5}, "EMADynamicSampler"
	case 5:
		return &config.TotalThroughputSamplerConfig{GoalThroughputPerSec: 2, FieldList: []string{"f1"}, ClearFrequency: config.Duration(2 * time.Second)}, "TotalThroughputSampler"
	case 6:
		return &config.RulesBasedSamplerConfig{Rules: []*config.RulesBasedSamplerRule{
			{Name: "dropx", Drop: true, Conditions: []*config.RulesBasedSamplerCondition{{Field: "f1", Operator: config.EQ, Value: "x"}}},
			{Name: "ratey", SampleRate: 3, Conditions: []*config.RulesBasedSamplerCondition{{Field: "f1", Operator: config.EQ, Value: "y"}}},
			{Name: "noroot", SampleRate: 2, Conditions: []*config.RulesBasedSamplerCondition{{Operator: config.HasRootSpan, Value: false}}},
			{Name: "dyn", Sampler: &config.RulesBasedDownstreamSampler{DynamicSampler: &config.DynamicSamplerConfig{SampleRate: 2, FieldList: []string{"f1"}}},
				Conditions: []*config.RulesBasedSamplerCondition{{Field: "f1", Operator: config.EQ, Value: "z"}}},
			{Name: "keepall", SampleRate: 1},
		}}, "RulesBasedSampler"
	case 7:
		return &config.WindowedThroughputSamplerConfig{GoalThroughputPerSec: 2, FieldList: []string{"f1"}, UpdateFrequency: config.Duration(time.Second), LookbackFrequency: config.Duration(3 * time.Second)}, "WindowedThroughputSampler"
	case 8:
		return &config.EMAThroughputSamplerConfig{GoalThroughputPerSec: 2, FieldList: []string{"f1"}, AdjustmentInterval: config.Duration(2 * time.Second), InitialSampleRate: 2}, "EMAThroughputSampler"
	case 9:
		return &config.DeterministicSamplerConfig{SampleRate: 1 << 31}, "DeterministicSampler"
	case 10:
		return &config.RulesBasedSamplerConfig{Rules: []*config.RulesBasedSamplerRule{
			{Name: "big", SampleRate: 1 << 30, Conditions: []*config.RulesBasedSamplerCondition{{Field: "f1", Operator: config.EQ, Value: "x"}}},
			{Name: "keepall", SampleRate: 1},
		}}, "RulesBasedSampler"
	case 11:
		// unusual but legal: a matching non-drop rule without a SampleRate (0)
		return &config.RulesBasedSamplerConfig{Rules: []*config.RulesBasedSamplerRule{
			{Name: "norate", Conditions: []*config.RulesBasedSamplerCondition{{Field: "f1", Operator: config.EQ, Value: "w"}}},
			{Name: "norate2", SampleRate: 0, Conditions: []*config.RulesBasedSamplerCondition{{Field: "f1", Operator: config.EQ, Value: "x"}}},
			{Name: "two", SampleRate: 2, Conditions: []*config.RulesBasedSamplerCondition{{Field: "f1", Operator: config.EQ, Value: "y"}}},
			{Name: "keepall", SampleRate: 1},
		}}, "RulesBasedSampler"
	case 12:
		// (not among the presets drawn at random) every rule keeps, each under its own name
		return &config.RulesBasedSamplerConfig{Rules: []*config.RulesBasedSamplerRule{
			{Name: "rule x", SampleRate: 1, Conditions: []*config.RulesBasedSamplerCondition{{Field: "f1", Operator: config.EQ, Value: "x"}}},
			{Name: "rule y", SampleRate: 1, Conditions: []*config.RulesBasedSamplerCondition{{Field: "f1", Operator: config.EQ, Value: "y"}}},
			{Name: "rule z", SampleRate: 2, Conditions: []*config.RulesBasedSamplerCondition{{Field: "f1", Operator: config.EQ, Value: "z"}}},
			{Name: "rest", SampleRate: 1},
		}}, "RulesBasedSampler"
	}
	return &config.DeterministicSamplerConfig{SampleRate: 1}, "DeterministicSampler"
}

const nSamplerPresets = 12

func us(n int64) time.Duration { return time.Duration(n) * time.Microsecond }

func (w *worldA) attrsFor(code int64) map[string]string {
	switch code {
	case 1:
		return map[string]string{"deploy": "blue"}
	case 2:
		return map[string]string{"deploy": "green", "zone": "z2"}
	}
	return map[string]string{}
}

func (w *worldA) pushEpoch() {
	c := w.cfg
	c.Mux.RLock()
	e := cfgEpoch{step: w.out.Steps, hostMeta: c.AddHostMetadataToTrace, ruleReason: c.AddRuleReasonToTrace, spanCnt: c.AddSpanCountToRoot, cnts: c.AddCountsToRoot, dryRun: c.DryRun, attrs: map[string]string{}}
	for k, v := range c.AdditionalAttributes {
		e.attrs[k] = v
	}
	c.Mux.RUnlock()
	w.epochs = append(w.epochs, e)
}

func (w *worldA) epochAt(step int) cfgEpoch {
	e := w.epochs[0]
	for _, x := range w.epochs {
		if x.step <= step {
			e = x
		}
	}
	return e
}

func newWorldA(p *Plan, out *Outcome, preStart func(w *worldA)) *worldA {
	w := &worldA{p: p, out: out, deferredTick: map[int]bool{}, traces: map[string]*traceModel{}, byIdx: map[int]*traceModel{}, spans: map[string]*spanRec{},
		qIn: map[int][]*spanRec{}, qPeer: map[int][]*spanRec{}, lru: map[int][]string{}, afterEj: map[int]map[int][]collect.VerifTraceInfo{}}
	w.start = time.Now()
	w.nWorkers = int(p.Get("workers", 1))
	sampCfg, sampName := samplerPreset(p.Get("sampler", 0))
	w.cfg = &config.MockConfig{
		GetTracesConfigVal: config.TracesConfig{
			SendTicker:       config.Duration(us(p.Get("send_ticker_us", 100_000))),
			SendDelay:        config.Duration(us(p.Get("send_delay_us", 200_000))),
			TraceTimeout:     config.Duration(us(p.Get("trace_timeout_us", 1_000_000))),
			SpanLimit:        uint(p.Get("span_limit", 0)),
			MaxExpiredTraces: uint(p.Get("max_expired", 0)),
			MaxBatchSize:     500,
			BatchTimeout:     config.Duration(100 * time.Millisecond),
		},
		GetCollectionConfigVal: config.CollectionConfig{
			WorkerCount:        w.nWorkers,
			IncomingQueueSize:  int(p.Get("in_queue", 1000)),
			PeerQueueSize:      int(p.Get("peer_queue", 1000)),
			HealthCheckTimeout: config.Duration(3 * time.Second),
			MaxAlloc:           config.MemorySize(p.Get("max_alloc", 0)),
		},
		SampleCache: config.SampleCacheConfig{
			KeptSize:          uint(p.Get("kept_size", 10000)),
			DroppedSize:       uint(p.Get("dropped_size", 100000)),
			SizeCheckInterval: config.Duration(us(p.Get("size_check_us", 1_000_000))),
			WorkerCount:       uint(w.nWorkers),
		},
		GetSamplerTypeVal:      sampCfg,
		GetSamplerTypeName:     sampName,
		DryRun:                 p.On("dry_run"),
		AddHostMetadataToTrace: p.On("host_meta"),
		AddRuleReasonToTrace:   p.On("rule_reason"),
		AddSpanCountToRoot:     p.On("span_count"),
		AddCountsToRoot:        p.On("counts"),
		AdditionalAttributes:   w.attrsFor(p.Get("attrs", 0)),
		TraceIdFieldNames:      []string{"trace.trace_id"},
		ParentIdFieldNames:     []string{"trace.parent_id"},
		GetHoneycombAPIVal:     "http://api.sim",
	}
	w.keptCap = int(w.cfg.SampleCache.GetKeptSizePerWorker())
	w.tt = us(p.Get("trace_timeout_us", 1_000_000))
	w.sd = us(p.Get("send_delay_us", 200_000))
	w.clk = NewSimClock("a")
	w.tr = NewSimTracer("a", w.clk)
	w.drv = NewDriver(out, p.Seed, w.clk)
	w.met = &metrics.MockMetrics{}
	w.met.Start()
	w.tx = &recTx{w: w}
	w.hl = &health.Health{Clock: w.clk}
	w.hl.Start()
	nPeers := int(p.Get("peers", 1))
	w.peerCount = nPeers
	var pl []string
	for i := 0; i < nPeers; i++ {
		pl = append(pl, fmt.Sprintf("http://peer%d:8081", i))
	}
	w.peers = peer.NewMockPeers(pl, pl[0])
	w.gpeers = &gatedPeers{MockPeers: w.peers, driver: goid()}
	w.stress = &hookStress{MockStressReliever: &collect.MockStressReliever{}}
	w.gmet = &gatedMetrics{MockMetrics: w.met, driver: goid()}
	w.sf = &sample.SamplerFactory{Config: simConfig{w.cfg}, Metrics: w.gmet, Logger: &logger.NullLogger{}, Peers: w.gpeers}
	if err := w.sf.Start(); err != nil {
		out.Harness = "sampler factory: " + err.Error()
		return w
	}
	lp := &pubsub.LocalPubSub{Config: simConfig{w.cfg}, Metrics: w.met}
	lp.Start()
	w.coll = &collect.InMemCollector{
		Config: simConfig{w.cfg}, Clock: w.clk, Logger: &logger.NullLogger{}, Tracer: &aTracer{SimTracer: w.tr, w: w},
		Health: w.hl, Transmission: w.tx, PeerTransmission: &recTx{w: w}, PubSub: lp, Metrics: w.met,
		StressRelief: w.stress, SamplerFactory: w.sf, Peers: w.gpeers,
		Sharder: &sharder.MockSharder{Self: &sharder.TestShard{Addr: "self"}},
	}
	collect.SimOutgoingQueueCap = func(i *collect.InMemCollector) int {
		if i == w.coll {
			if c := int(w.p.N["out_queue_cap"]); c > 0 {
				w.out.Probe("outgoing_queue_shrunk")
				return c
			}
		}
		return 0
	}
	collect.SimOrderTraces = tieOrder(p.Seed)
	collect.SimHeapAlloc = func(i *collect.InMemCollector, real uint64) uint64 {
		if i != w.coll {
			return 0
		}
		// a memory check while a worker is stalled would leave that worker, when the
		// stall ends, with both the ejection request and its backlog ready - and
		// which one Go's select takes cannot be seeded: the reading waits for the
		// first memory check after the stall
		for k := 0; k < w.nWorkers; k++ {
			if w.tr.Armed(fmt.Sprintf("collect_worker/%d", k)) {
				if w.heapNext > 0 {
					w.out.Probe("memory_reading_postponed_worker_stalled")
				}
				return 0
			}
		}
		if ma := uint64(w.cfg.GetCollectionConfig().GetMaxAlloc()); ma > 0 && w.heapNext >= ma && w.pendingEj == nil {
			// a memory check the model has not been told about: the monitor took a
			// tick that had waited in its ticker's channel while the previous check was
			// still in progress (a worker stuck on a full outgoing queue). The reading
			// waits for the next check that starts on a tick of its own.
			w.out.Probe("memory_reading_postponed_check_in_progress")
			return 0
		}
		v := w.heapNext
		w.heapNext = 0
		return v
	}
	w.tr.OnStart = w.onTrace
	if preStart != nil {
		preStart(w)
	}
	w.cfg.CfgHash, w.cfg.RulesHash = w.contentHashes()
	if err := w.coll.Start(); err != nil {
		out.Harness = "collector start: " + err.Error()
		return w
	}
	w.pushEpoch()
	return w
}

// onTrace observes refinery's own tracing calls (existing seam).
func (w *worldA) onTrace(name string, attr func(string) (attribute.Value, bool)) {
	if name == "sendExpiredTracesInCache" {
		// the worker handles a send tick now; if that tick fired while the worker
		// was stalled, this is the moment it is judged at
		v, ok := attr("worker_id")
		if !ok {
			return
		}
		wid := int(v.AsInt64())
		w.mu.Lock()
		defer w.mu.Unlock()
		if !w.deferredTick[wid] {
			return
		}
		delete(w.deferredTick, wid)
		now := time.Now()
		tr := &tickRec{step: w.out.Steps, worker: wid, at: now, maxExp: int(w.curTraces().MaxExpiredTraces), handled: true}
		for _, tm := range w.traces {
			if tm.live && tm.worker == wid && !tm.deadline.After(now) {
				tr.expired = append(tr.expired, tm)
			}
		}
		sort.Slice(tr.expired, func(i, j int) bool { return tr.expired[i].idx < tr.expired[j].idx })
		w.tickLog = append(w.tickLog, tr)
		w.out.Probe("tick_handled_after_worker_stall")
		return
	}
	if name != "processSpan" {
		return
	}
	w.mu.Lock()
	defer w.mu.Unlock()
	v, ok := attr("worker_id")
	if !ok {
		return
	}
	wid := int(v.AsInt64())
	var sp *spanRec
	if q := w.qPeer[wid]; len(q) > 0 {
		sp, w.qPeer[wid] = q[0], q[1:]
	} else if q := w.qIn[wid]; len(q) > 0 {
		sp, w.qIn[wid] = q[0], q[1:]
	}
	if sp == nil {
		w.out.Harness = fmt.Sprintf("model queue empty but worker %d processed a span", wid)
		return
	}
	w.modelProcess(sp)
}

func (w *worldA) curTraces() config.TracesConfig { return w.cfg.GetTracesConfig() }

// modelProcess updates the reference model for a span the worker is processing now.
func (w *worldA) modelProcess(sp *spanRec) {
	now := time.Now()
	sp.procAt = now
	sp.procStep = w.out.Steps
	tm := w.traces[sp.traceID]
	tm.processed = append(tm.processed, sp)
	if !tm.live {
		if n := len(tm.decisions); n > 0 {
			// decided earlier: this is a late span unless the decision was forgotten
			last := tm.decisions[n-1]
			remembered := true
			if last.kept {
				remembered = w.lruTouch(tm.worker, tm.id)
			}
			if remembered {
				sp.late, sp.lateOf = true, last
				switch sp.kind {
				case skEvent:
					last.lateEvents++
				case skLink:
					last.lateLinks++
				default:
					last.lateSpans++
				}
				sp.lateEvents, sp.lateLinks, sp.lateSpans = last.nEvents+last.lateEvents, last.nLinks+last.lateLinks, last.nSpans+last.lateSpans
				w.out.Probe("late_span")
				if sp.kind == skRoot {
					w.out.Probe("late_root")
				}
				return
			}
			tm.forgotten = true
			w.out.Probe("kept_decision_aged_out_then_span")
		}
		tm.live = true
		tm.first = now
		tm.rootAt, tm.limitAt = time.Time{}, time.Time{}
		tm.liveSpans = 0
		tt := w.curTraces().GetTraceTimeout()
		if tt == 0 {
			tt = 60 * time.Second
		}
		tm.deadline = now.Add(tt)
	}
	tm.liveSpans++
	tc := w.curTraces()
	if sp.kind == skRoot {
		sd := tc.GetSendDelay()
		if sd == 0 {
			sd = 2 * time.Second
		}
		if tm.rootAt.IsZero() {
			tm.rootAt = now
		}
		if d := now.Add(sd); d.Before(tm.deadline) {
			tm.deadline = d
		}
	}
	if tc.SpanLimit > 0 && uint(tm.liveSpans) > tc.SpanLimit {
		if tm.limitAt.IsZero() {
			tm.limitAt = now
		}
		if now.Before(tm.deadline) {
			tm.deadline = now
		}
	}
}

func (w *worldA) onDecision(a map[string]attribute.Value) {
	w.mu.Lock()
	defer w.mu.Unlock()
	id := a["trace_id"].AsString()
	tm := w.traces[id]
	if tm == nil {
		w.out.Harness = "decision for unknown trace " + id
		return
	}
	d := &decisionRec{step: w.out.Steps, stepK: w.drv.CurKind, stepIdent: w.drv.CurIdent, at: time.Now(), traceID: id,
		kept: a["kept"].AsBool(), rate: uint(a["rate"].AsInt64()), reason: a["reason"].AsString(),
		sendReason: a["send_reason"].AsString(), hasRoot: !tm.rootAt.IsZero(), spans: tm.liveSpans, cfgEpoch: len(w.epochs) - 1,
		deadline: tm.deadline, first: tm.first, overLimit: !tm.limitAt.IsZero(), worker: tm.worker}
	if v, ok := a["rate"]; ok && v.Type() == attribute.STRING {
		// rate is a uint: otelutil formats unknown types with %v
		var r uint64
		fmt.Sscan(v.AsString(), &r)
		d.rate = uint(r)
	}
	for _, sp := range tm.processed[len(tm.processed)-tm.liveSpans:] {
		switch sp.kind {
		case skEvent:
			d.nEvents++
		case skLink:
			d.nLinks++
		default:
			d.nSpans++
		}
	}
	tm.decisions = append(tm.decisions, d)
	w.decLog = append(w.decLog, d)
	tm.live = false
	if d.kept {
		w.lruAdd(tm.worker, id)
	}
}

func (w *worldA) lruTouch(worker int, id string) bool {
	l := w.lru[worker]
	for i, x := range l {
		if x == id {
			w.lru[worker] = append(append(l[:i:i], l[i+1:]...), id)
			return true
		}
	}
	return false
}

func (w *worldA) lruAdd(worker int, id string) {
	if w.lruTouch(worker, id) {
		return
	}
	l := append(w.lru[worker], id)
	if len(l) > w.keptCap {
		l = l[len(l)-w.keptCap:]
		w.out.Probe("kept_lru_eviction")
	}
	w.lru[worker] = l
}

func (w *worldA) lruResize(cap int) {
	w.keptCap = cap
	for k, l := range w.lru {
		if len(l) > cap {
			w.lru[k] = append([]string(nil), l[len(l)-cap:]...)
		}
	}
}

func (w *worldA) mkSpan(sr *spanRec) *types.Span {
	data := map[string]any{
		"span_id":        sr.spanID,
		"trace.trace_id": sr.traceID,
		"f1":             []string{"x", "y", "z", "w"}[(sr.traceIdx+int(sr.op.N>>8))%4],
		"name":           "op-" + sr.spanID,
	}
	if sr.kind != skRoot {
		data["trace.parent_id"] = "p-" + sr.traceID[:6]
	}
	if pad := sr.op.M >> 32; pad > 0 {
		data["pad"] = strings.Repeat("p", int(pad))
	}
	pl := types.NewPayload(simConfig{w.cfg}, data)
	switch sr.kind {
	case skEvent:
		pl.Set(types.MetaAnnotationType, "span_event")
	case skLink:
		pl.Set(types.MetaAnnotationType, "link")
	}
	pl.ExtractMetadata()
	ev := &types.Event{
		Context: context.Background(), APIHost: "http://api.sim", APIKey: "key-env-1", Dataset: "ds1", Environment: envOf(sr.op),
		SampleRate: sr.client, Timestamp: time.Unix(1700000000, 0).Add(time.Duration(sr.op.ID) * time.Millisecond), Data: pl,
	}
	return &types.Span{Event: ev, TraceID: sr.traceID, IsRoot: sr.kind == skRoot}
}

func envOf(op Op) string {
	if op.S != "" {
		return op.S
	}
	return "env1"
}

func (w *worldA) doSpan(op Op) {
	idx := int(op.I)
	// (under the model's lock: operations that offer several spans in one step
	// run while a worker may already be reporting the first of them)
	w.mu.Lock()
	tm := w.byIdx[idx]
	if tm == nil {
		id := traceIDFor(w.p.Seed, idx)
		tm = &traceModel{idx: idx, id: id, worker: w.coll.VerifWorkerFor(id)}
		w.byIdx[idx] = tm
		w.traces[id] = tm
	}
	sr := &spanRec{op: op, traceIdx: idx, traceID: tm.id, spanID: fmt.Sprintf("s%d-%d", idx, op.ID), kind: int(op.N & 0xff),
		client: uint(op.M & 0xffffffff), fromPeer: op.B, offered: time.Now().Sub(w.start)}
	w.spans[sr.spanID] = sr
	tm.offered = append(tm.offered, sr)
	w.mu.Unlock()
	sp := w.mkSpan(sr)
	sr.size = sp.GetDataSize()
	// the model queue must be updated before the worker can possibly pick the span up
	w.mu.Lock()
	if op.B {
		w.qPeer[tm.worker] = append(w.qPeer[tm.worker], sr)
	} else {
		w.qIn[tm.worker] = append(w.qIn[tm.worker], sr)
	}
	w.mu.Unlock()
	var err error
	if op.B {
		err = w.coll.AddSpanFromPeer(sp)
	} else {
		err = w.coll.AddSpan(sp)
	}
	if err != nil {
		// refused: take it back out of the model queue (it is the last element)
		w.mu.Lock()
		defer w.mu.Unlock()
		if op.B {
			q := w.qPeer[tm.worker]
			w.qPeer[tm.worker] = q[:len(q)-1]
		} else {
			q := w.qIn[tm.worker]
			w.qIn[tm.worker] = q[:len(q)-1]
		}
		w.out.Probe("span_refused_queue_full")
		return
	}
	sr.accepted = true
}

// contentHashes: what a file-backed config reports with a reload - a digest of
// the main settings and one of the sampling rules; equal content, equal digest
// (reverting a change brings the earlier digest back).
func (w *worldA) contentHashes() (string, string) {
	c := w.cfg
	c.Mux.RLock()
	defer c.Mux.RUnlock()
	attrs, _ := json.Marshal(c.AdditionalAttributes)
	main := fmt.Sprintf("%v/%v/%v/%v/%v/%s/%d", c.DryRun, c.AddHostMetadataToTrace, c.AddRuleReasonToTrace, c.AddSpanCountToRoot, c.AddCountsToRoot, attrs, c.SampleCache.KeptSize)
	rules, _ := json.Marshal(c.GetSamplerTypeVal)
	rules2, _ := json.Marshal(c.Samplers)
	return fmt.Sprintf("%016x", H(1, "cfg", main)), fmt.Sprintf("%016x", H(1, "rules", c.GetSamplerTypeName, string(rules), string(rules2)))
}

// reloadCfg tells the listeners that the configuration changed, the way the
// file-backed config does: with the digests of the content now in force.
func (w *worldA) reloadCfg() {
	c := w.cfg
	ch, rh := w.contentHashes()
	c.Mux.Lock()
	c.CfgHash, c.RulesHash = ch, rh
	cbs := append([]config.ConfigReloadCallback(nil), c.Callbacks...)
	c.Mux.Unlock()
	for _, cb := range cbs {
		cb(ch, rh)
	}
}

func (w *worldA) doReload(op Op) {
	c := w.cfg
	for i := 0; i < w.nWorkers; i++ {
		if w.tr.Parked(fmt.Sprintf("collect_worker/%d", i)) || w.blockedOnSend(i) {
			// a parked worker (or one stuck handing a trace to a full outgoing queue)
			// would wake with both its backlog and the reload signal ready, and Go's
			// select cannot be seeded: skip
			w.out.Probe("reload_skipped_worker_parked")
			return
		}
	}
	if w.reloadHook != nil && w.reloadHook(op) {
		if op.B {
			// a kept-decision capacity for which the workers' Resize returns an error
			// (zero here; an int overflow does the same)
			c.Mux.Lock()
			c.SampleCache.KeptSize = 0
			c.Mux.Unlock()
			w.out.Fault("sent_cache_resize_fails")
		}
		w.pushEpoch()
		if op.M == 1 {
			// the collector's reload callback stalls half way; a worker decides a
			// trace; the callback goes on
			release, parked := w.stress.arm()
			w.reloadCfg()
			w.drv.Settle()
			select {
			case <-parked:
				w.midReloadDecision(op)
				close(release)
				w.drv.Settle()
			default:
				w.stress.disarm()
				close(release)
			}
		} else {
			w.reloadCfg()
		}
		w.out.Probe("reload_" + op.S)
		return
	}
	c.Mux.Lock()
	switch op.S {
	case "sampler":
		c.GetSamplerTypeVal, c.GetSamplerTypeName = samplerPreset(op.N)
	case "kept_size":
		c.SampleCache.KeptSize = uint(op.N)
	case "host_meta":
		c.AddHostMetadataToTrace = op.N != 0
	case "rule_reason":
		c.AddRuleReasonToTrace = op.N != 0
	case "span_count":
		c.AddSpanCountToRoot = op.N != 0
	case "counts":
		c.AddCountsToRoot = op.N != 0
	case "attrs":
		c.AdditionalAttributes = w.attrsFor(op.N)
	case "dry_run":
		c.DryRun = op.N != 0
	case "noop":
	}
	c.Mux.Unlock()
	w.pushEpoch()
	w.reloadCfg()
	w.lruResize(int(c.GetSampleCacheConfig().GetKeptSizePerWorker()))
	w.out.Probe("reload_" + op.S)
}

func (w *worldA) tracesCfgTimeout() time.Duration {
	tt := w.curTraces().GetTraceTimeout()
	if tt == 0 {
		tt = 60 * time.Second
	}
	return tt
}

func (w *worldA) snapshotBuffers() map[int][]collect.VerifTraceInfo {
	m := map[int][]collect.VerifTraceInfo{}
	for i := 0; i < w.nWorkers; i++ {
		m[i] = w.coll.VerifBuffered(i, w.tracesCfgTimeout())
	}
	return m
}

func workerOfTickKey(key string) (int, bool) {
	// "a/worker/3"
	i := strings.LastIndex(key, "/worker/")
	if i < 0 {
		return 0, false
	}
	var n int
	if _, err := fmt.Sscan(key[i+len("/worker/"):], &n); err != nil {
		return 0, false
	}
	return n, true
}

func (w *worldA) schedule() time.Duration {
	var last int64
	for _, op := range w.p.Ops {
		op := op
		if op.At > last {
			last = op.At
		}
		ident := fmt.Sprintf("op/%d", op.ID)
		w.drv.AtSig(us(op.At), op.K, ident, fmt.Sprintf("%d/%d/%s", op.I, op.N&0xff, op.S), func() {
			switch op.K {
			case "span":
				w.doSpan(op)
			case "reload":
				w.doReload(op)
			case "heap":
				w.heapNext = uint64(op.N)
			case "park":
				w.tr.Park(op.S)
				w.out.Fault("park_" + strings.SplitN(op.S, "/", 2)[0])
			case "release":
				w.release(op.S)
			case "peers_race":
				w.peersRace(op)
			case "create_race":
				w.createRace(op)
			case "reload_busy":
				w.reloadWhileBusy(op)
			case "peers_fail":
				w.gpeers.mu.Lock()
				w.gpeers.failing = op.N == 1
				w.gpeers.mu.Unlock()
				if op.N == 1 {
					w.out.Fault("peer_list_unavailable")
				}
			case "peers":
				w.gpeers.mu.Lock()
				failing := w.gpeers.failing
				w.gpeers.mu.Unlock()
				if failing {
					// a membership change nobody can read: leave it for later (the model
					// would have to track the last count that could be read)
					w.out.Probe("peer_change_skipped_list_unavailable")
					break
				}
				var pl []string
				for i := int64(0); i < op.N; i++ {
					pl = append(pl, fmt.Sprintf("http://peer%d:8081", i))
				}
				w.peerCount = int(op.N)
				w.peers.UpdatePeers(pl)
				w.out.Probe("peer_count_change")
			}
		})
	}
	return us(last)
}

// midReloadDecision runs inside the collector's reload callback: a fresh trace
// becomes due and its worker decides it before the callback has finished.
func (w *worldA) midReloadDecision(op Op) {
	w.doSpan(Op{ID: op.ID, K: "span", I: op.I, N: skRoot | op.J<<8, S: op.T})
	w.drv.Settle()
	tm := w.byIdx[int(op.I)]
	tk := w.clk.Find(fmt.Sprintf("a/worker/%d", tm.worker))
	if tk == nil {
		return
	}
	time.Sleep(w.tracesCfgTimeout() + time.Millisecond)
	select {
	case tk.ch <- time.Now():
	default:
	}
	w.drv.Settle()
	w.out.Probe("decision_while_reload_half_done")
}

// blockedOnSend reports whether worker wid is stuck handing a trace to a full
// outgoing queue (only possible in plans that shrink that queue).
func (w *worldA) blockedOnSend(wid int) bool {
	if !w.p.On("out_queue_cap") {
		return false
	}
	g := w.tr.WorkerGoid(int64(wid))
	return g != 0 && strings.HasPrefix(goroutineState(g), "chan send")
}

// awaitGoroutine waits until goroutine g has come to rest and says where:
// "gate" (it closed parked and waits at a harness gate), "lock" (it waits for a
// mutex), "idle" (blocked anywhere else: back in its loop) or "gone". What it
// never does is guess from elapsed time: the answer is read off the runtime's
// own goroutine states, so it is the same on one core or sixteen.
func awaitGoroutine(g int64, parked <-chan struct{}) string {
	for i := 1; ; i++ {
		select {
		case <-parked:
			return "gate"
		default:
		}
		runtime.Gosched()
		if i%200 != 0 {
			continue
		}
		st := goroutineState(g)
		switch {
		case st == "":
			return "gone"
		case strings.HasPrefix(st, "sync.Mutex") || strings.HasPrefix(st, "sync.RWMutex") || strings.HasPrefix(st, "semacquire"):
			return "lock"
		case strings.HasPrefix(st, "running") || strings.HasPrefix(st, "runnable"):
			// still at work
		default:
			// blocked somewhere: unless it is our gate, it is back in its loop
			select {
			case <-parked:
				return "gate"
			default:
			}
			return "idle"
		}
	}
}

// createRace: two workers reach the lazy creation of the same sampler at the
// same time - the first is stalled inside the creation, the second starts its
// own, the first goes on.
func (w *worldA) createRace(op Op) {
	if w.nWorkers < 2 {
		return
	}
	// two fresh traces of the same environment on different workers
	a := int(op.I)
	w.doSpan(Op{ID: op.ID, K: "span", I: int64(a), N: skRoot | op.J<<8, S: op.S})
	ta := w.byIdx[a]
	b := -1
	for k := 1; k < 200; k++ {
		if w.coll.VerifWorkerFor(traceIDFor(w.p.Seed, a+k)) != ta.worker {
			b = a + k
			break
		}
	}
	if b < 0 {
		return
	}
	w.doSpan(Op{ID: op.ID, K: "span", I: int64(b), N: skRoot | op.J<<8, S: op.S})
	tb := w.byIdx[b]
	w.drv.Settle()
	tka := w.clk.Find(fmt.Sprintf("a/worker/%d", ta.worker))
	tkb := w.clk.Find(fmt.Sprintf("a/worker/%d", tb.worker))
	if tka == nil || tkb == nil {
		return
	}
	ga, gb := w.tr.WorkerGoid(int64(ta.worker)), w.tr.WorkerGoid(int64(tb.worker))
	if ga == 0 || gb == 0 {
		return
	}
	release, parked := w.gmet.arm()
	time.Sleep(w.tracesCfgTimeout() + time.Millisecond)
	select {
	case tka.ch <- time.Now():
	default:
	}
	if awaitGoroutine(ga, parked) != "gate" {
		// no creation happened (the worker already had this sampler)
		w.gmet.disarm()
		close(release)
		w.drv.Settle()
		return
	}
	w.out.Probe("two_workers_in_the_same_sampler_creation")
	select {
	case tkb.ch <- time.Now():
	default:
	}
	// the second worker either creates its own now or waits for the factory's lock
	awaitGoroutine(gb, nil)
	close(release)
	w.drv.Settle()
}

// freshTraceOn: the first trace index from base on whose trace belongs to worker wk.
func (w *worldA) freshTraceOn(base, wk int) int {
	for k := 0; k < 400; k++ {
		if w.byIdx[base+k] == nil && w.coll.VerifWorkerFor(traceIDFor(w.p.Seed, base+k)) == wk {
			return base + k
		}
	}
	return -1
}

// reloadWhileBusy: one worker is busy (held at the start of a decision) while
// the main configuration changes twice - an option is switched and switched
// back, the rules stay what they are - and another worker decides a trace of
// the same environment between the two changes. Afterwards the busy worker goes
// on and decides one more trace. Whatever signals were pending or dropped on
// the way, workers using the same definition must end up on one rate-tracking
// instance.
func (w *worldA) reloadWhileBusy(op Op) {
	if w.nWorkers < 2 {
		return
	}
	for i := 0; i < w.nWorkers; i++ {
		if w.tr.Armed(fmt.Sprintf("collect_worker/%d", i)) {
			return
		}
	}
	busy := int(op.N) % w.nWorkers
	other := (busy + 1 + int(op.M)%(w.nWorkers-1)) % w.nWorkers
	a, b := w.freshTraceOn(int(op.I), busy), w.freshTraceOn(int(op.I)+400, other)
	c := w.freshTraceOn(int(op.I)+800, busy)
	if a < 0 || b < 0 || c < 0 {
		return
	}
	span := func(i int) { w.doSpan(Op{ID: op.ID, K: "span", I: int64(i), N: skRoot | op.J<<8, S: op.S}) }
	tick := func(wk int) {
		if tk := w.clk.Find(fmt.Sprintf("a/worker/%d", wk)); tk != nil {
			select {
			case tk.ch <- time.Now():
			default:
			}
		}
	}
	g := w.tr.WorkerGoid(int64(busy))
	if g == 0 {
		return
	}
	span(a)
	span(b)
	w.drv.Settle()
	key := fmt.Sprintf("makeDecision/%d", busy)
	w.tr.Park(key)
	time.Sleep(w.tracesCfgTimeout() + time.Millisecond)
	tick(busy)
	awaitGoroutine(g, nil)
	if !w.tr.Parked(key) {
		w.tr.Release(key)
		w.drv.Settle()
		return
	}
	hm := int64(1)
	if w.cfg.GetAddHostMetadataToTrace() {
		hm = 0
	}
	w.doReload(Op{ID: op.ID, K: "reload", S: "host_meta", N: hm})
	w.drv.Settle()
	tick(other)
	w.drv.Settle()
	w.doReload(Op{ID: op.ID, K: "reload", S: "host_meta", N: 1 - hm})
	w.drv.Settle()
	w.tr.Release(key)
	w.drv.Settle()
	span(c)
	w.drv.Settle()
	time.Sleep(w.tracesCfgTimeout() + time.Millisecond)
	tick(busy)
	w.drv.Settle()
	w.out.Probe("two_reloads_while_a_worker_was_busy")
}

// peersRace: a lazy sampler creation on a worker looks the peer list up, is
// overtaken by a membership change, and only then applies what it looked up.
func (w *worldA) peersRace(op Op) {
	w.gpeers.mu.Lock()
	failing := w.gpeers.failing
	w.gpeers.mu.Unlock()
	if failing {
		return
	}
	// a root span of a new trace, decided at the next tick of its worker: if that
	// worker has no sampler for the selector yet, it creates one now
	w.doSpan(Op{ID: op.ID, K: "span", I: op.I, N: skRoot | op.J<<8, S: op.S})
	w.drv.Settle()
	tm := w.byIdx[int(op.I)]
	tk := w.clk.Find(fmt.Sprintf("a/worker/%d", tm.worker))
	g := w.tr.WorkerGoid(int64(tm.worker))
	if tk == nil || g == 0 {
		return
	}
	release, parked := w.gpeers.arm()
	// wait until the trace is due, then tick its worker
	time.Sleep(w.tracesCfgTimeout() + time.Millisecond)
	select {
	case tk.ch <- time.Now():
	default:
	}
	if awaitGoroutine(g, parked) != "gate" {
		// no lazy creation happened (the worker already had this sampler)
		w.gpeers.disarm()
		close(release)
		w.drv.Settle()
		return
	}
	w.out.Probe("peer_lookup_overtaken_by_membership_change")
	var pl []string
	for i := int64(0); i < op.N; i++ {
		pl = append(pl, fmt.Sprintf("http://peer%d:8081", i))
	}
	w.peerCount = int(op.N)
	done := make(chan struct{})
	gid := make(chan int64, 1)
	go func() { gid <- goid(); w.peers.UpdatePeers(pl); close(done) }()
	// the membership callback either completes now or waits for the factory's
	// lock, which the stalled creation may hold
	awaitGoroutine(<-gid, done)
	close(release)
	<-done
	w.drv.Settle()
}

// release lets a parked goroutine go on; a parked worker first works through
// its backlog one loop iteration at a time (each iteration is a scheduler step).
func (w *worldA) release(key string) {
	if !strings.HasPrefix(key, "collect_worker/") {
		w.tr.Release(key)
		return
	}
	var wid int
	fmt.Sscan(strings.TrimPrefix(key, "collect_worker/"), &wid)
	for n := 0; n < 100000; n++ {
		if len(w.qIn[wid])+len(w.qPeer[wid]) == 0 {
			break
		}
		w.tr.StepOne(key)
		w.drv.Settle()
		w.out.Step("backlog", wid)
	}
	w.tr.Release(key)
}

func (w *worldA) hooks() {
	w.drv.BeforeTick = func(tk *SimTicker) {
		if wid, ok := workerOfTickKey(tk.Key); ok {
			now := time.Now()
			tr := &tickRec{step: w.out.Steps, worker: wid, at: now, maxExp: int(w.curTraces().MaxExpiredTraces)}
			for _, tm := range w.traces {
				if tm.live && tm.worker == wid && !tm.deadline.After(now) {
					tr.expired = append(tr.expired, tm)
				}
			}
			sort.Slice(tr.expired, func(i, j int) bool { return tr.expired[i].idx < tr.expired[j].idx })
			if w.tr.Parked(fmt.Sprintf("collect_worker/%d", wid)) {
				tr.deferred = true
				w.out.Probe("tick_fired_while_worker_stalled")
				w.mu.Lock()
				w.deferredTick[wid] = true
				w.mu.Unlock()
			}
			w.tickLog = append(w.tickLog, tr)
		}
		stalledNow := false
		for k := 0; k < w.nWorkers; k++ {
			if w.tr.Armed(fmt.Sprintf("collect_worker/%d", k)) {
				stalledNow = true
			}
		}
		if strings.Contains(tk.Key, "monitor") && w.heapNext > 0 && !stalledNow && !checkAllocInProgress() {
			ma := uint64(w.cfg.GetCollectionConfig().GetMaxAlloc())
			if ma > 0 && w.heapNext >= ma {
				w.pendingEj = &ejection{at: time.Now(), step: w.out.Steps, heap: w.heapNext, maxAlloc: ma, before: w.snapshotBuffers(), stalled: map[int]bool{}}
				for i := 0; i < w.nWorkers; i++ {
					// a stalled worker takes its share later, from whatever it holds then
					if w.tr.Parked(fmt.Sprintf("collect_worker/%d", i)) {
						w.pendingEj.stalled[i] = true
					}
				}
				w.ejections = append(w.ejections, w.pendingEj)
				w.out.Fault("memory_pressure_reading")
				// all workers eject at once and draw from the shared sampler
				// state / global rand: serialise them at their first decision
				for i := 0; i < w.nWorkers; i++ {
					w.tr.Park(fmt.Sprintf("makeDecision/%d", i))
				}
			}
		}
	}
	w.drv.AfterTick = func(tk *SimTicker, delivered bool) {
		if w.pendingEj == nil {
			return
		}
		ej := w.pendingEj
		w.pendingEj = nil
		order := make([]int, w.nWorkers)
		for i := range order {
			order[i] = i
		}
		sort.Slice(order, func(a, b int) bool {
			return H(w.p.Seed, "ej", ej.step, order[a]) < H(w.p.Seed, "ej", ej.step, order[b])
		})
		for _, i := range order {
			w.tr.Release(fmt.Sprintf("makeDecision/%d", i))
			w.drv.Settle()
		}
		for i := 0; i < w.nWorkers; i++ {
			// a worker that got stuck handing a decided trace to a full outgoing
			// queue finishes its share when the queue drains, in later steps
			if w.blockedOnSend(i) {
				ej.stalled[i] = true
				w.out.Probe("ejection_waits_for_full_outgoing_queue")
			}
		}
		w.afterEj[ej.step] = w.snapshotBuffers()
	}
	// ticks are withheld from a worker that is parked or has a backlog, so that
	// at most one input of its select is ready at a time (Go's select would
	// otherwise pick at random, which cannot be seeded)
	w.drv.TickGate = func(tk *SimTicker) bool {
		if wid, ok := workerOfTickKey(tk.Key); ok {
			if w.blockedOnSend(wid) {
				return false // it would wake with this tick and whatever arrives meanwhile both ready
			}
			if w.tr.Parked(fmt.Sprintf("collect_worker/%d", wid)) || len(w.qIn[wid])+len(w.qPeer[wid]) > 0 {
				// except, in plans that stall workers in a gap of the traffic: one tick
				// is let through to a stalled worker with nothing else to do (it waits in
				// the ticker's channel; still a single ready input when the stall ends)
				w.mu.Lock()
				pending := w.deferredTick[wid]
				w.mu.Unlock()
				if w.p.On("late_tick") && !pending && len(w.qIn[wid])+len(w.qPeer[wid]) == 0 && w.tr.Parked(fmt.Sprintf("collect_worker/%d", wid)) {
					return true
				}
				return false
			}
		}
		return true
	}
}

// ---------------------------------------------------------------------------

type aOpts struct {
	preStart  func(w *worldA)              // after config is built, before the collector starts
	afterStep func(w *worldA, kind string) // at quiescence after every stimulus
	final     func(w *worldA)              // after the drain, before shutdown
	noBase    bool                         // skip the C01..C07 oracles
}

func runWorldA(t *testing.T, p *Plan) *Outcome { return runWorldAWith(t, p, aOpts{}) }

func runWorldAWith(t *testing.T, p *Plan, o aOpts) *Outcome {
	out := NewOutcome()
	pt := InBubble(t, func() {
		w := newWorldA(p, out, o.preStart)
		if out.Harness != "" {
			return
		}
		w.hooks()
		if o.afterStep != nil {
			w.drv.AfterStep = func(kind, ident string) { o.afterStep(w, kind) }
		}
		w.drv.Settle()
		last := w.schedule()
		w.drv.Run(last + time.Microsecond)
		// faults are over: release everything that is still parked, then give
		// the system the documented time to decide everything.
		for _, k := range []string{"sendTrace"} {
			w.tr.Release(k)
		}
		for i := 0; i < w.nWorkers; i++ {
			w.release(fmt.Sprintf("collect_worker/%d", i))
		}
		w.drv.Settle()
		tick := time.Duration(w.curTraces().SendTicker)
		nTraces := len(w.traces)
		per := int(w.curTraces().MaxExpiredTraces)
		rounds := 2
		if per > 0 {
			rounds += (nTraces + per - 1) / per
		}
		sd := w.sd
		if sd == 0 {
			sd = 2 * time.Second
		}
		budget := w.tracesCfgTimeout() + sd + time.Duration(rounds+1)*tick
		w.drv.Run(last + budget)
		if !o.noBase {
			w.checkAll()
		}
		if o.final != nil {
			o.final(w)
		}
		// orderly stop so the bubble can end
		w.tr.ReleaseAll()
		w.coll.Stop()
		w.sf.Stop()
		w.hl.Stop()
		collect.SimHeapAlloc = nil
		collect.SimOutgoingQueueCap = nil
		collect.SimOrderTraces = nil
	})
	if pt != "" && out.Harness == "" {
		out.Harness = "panic/deadlock in bubble: " + pt
	}
	return out
}

// tieOrder: the order in which a worker sees the traces of its cache (a Go map)
// before it sorts them by impact - and with it which of several equally heavy
// traces is ejected first - comes from the seed.
func tieOrder(seed uint64) func(ts []*types.Trace) {
	return func(ts []*types.Trace) {
		sort.Slice(ts, func(i, j int) bool {
			hi, hj := H(seed, "tie", ts[i].TraceID), H(seed, "tie", ts[j].TraceID)
			if hi != hj {
				return hi < hj
			}
			return ts[i].TraceID < ts[j].TraceID
		})
	}
}

// checkAllocInProgress: the collector's monitor goroutine is still inside a
// memory check (waiting for a worker that is stuck on a full outgoing queue);
// a tick fired now only waits in its ticker's channel.
func checkAllocInProgress() bool {
	n := runtime.Stack(stackBuf, true)
	return bytes.Contains(stackBuf[:n], []byte("(*InMemCollector).checkAlloc("))
}
