//go:build verif

package verifsim

import (
	"bytes"
	"context"
	"crypto/sha256"
	"encoding/json"
	"fmt"
	"net/http"
	"net/url"
	"sort"
	"strings"
	"testing"
	"time"

	"github.com/klauspost/compress/zstd"
	"github.com/vmihailenco/msgpack/v5"

	"github.com/honeycombio/refinery/config"
	"github.com/honeycombio/refinery/logger"
	"github.com/honeycombio/refinery/metrics"
	"github.com/honeycombio/refinery/transmit"
	"github.com/honeycombio/refinery/types"
)

// C26 (World C): transmission delivers each event once to its own destination
// within limits.
//
// Real: transmit.DirectTransmission (batching per destination, size and count
// splitting, zstd, msgpack encoding, its real http.Client with its timeout on
// simulated time, retry logic, stale-batch dispatcher, Stop), MultiMetrics.
// Stub: SimNet server whose behaviour per (batch, attempt) comes from the plan.

func init() {
	// package-level codecs must create their internals outside any bubble
	transmit.VerifWarmZstd()
	if b, err := zstdDec.DecodeAll(zstdWarm(), nil); err != nil || string(b) != "warm" {
		panic("zstd warm-up failed")
	}
	Register(&Check{
		ID: "C26", World: "C/transmission", Gen: genTransmit, Run: runTransmit, Simplify: simplifyTransmit,
		OwnProbes: []string{"batch_split_by_body_size", "oversized_event_dropped", "retry_after_429_503", "retry_after_timeout", "no_retry_bad_retry_after", "pending_sent_by_stop", "batch_dispatched_by_size", "short_response", "batch_waited_for_its_sender", "enqueue_overlapped_by_second_producer"},
		Real:      []string{"transmit.DirectTransmission (EnqueueEvent, sendBatch, dispatchStaleBatches, Stop)", "net/http.Client (real, timeout on simulated time)", "zstd + msgpack encoding", "metrics.MultiMetrics"},
		Stub:      []string{"network and Honeycomb API (SimNet: per-attempt behaviour from the plan)", "clock (SimClock: the dispatch ticker is delivered by the driver)", "config (MockConfig)", "logger (NullLogger)"},
	})
}

// upHookMetrics is the Metrics the transmission gets: the real MultiMetrics,
// whose Up can run a hook first - the transmission counts an event as queued in
// the middle of EnqueueEvent, which is the seam for "a second producer enqueues
// at the same time".
type upHookMetrics struct {
	metrics.Metrics
	hook func()
}

func (m *upHookMetrics) Up(name string) {
	if h := m.hook; h != nil && strings.HasSuffix(name, "queued_items") {
		m.hook = nil
		h()
	}
	m.Metrics.Up(name)
}

type txDest struct{ host, key, dataset string }

var txDests = []txDest{
	{"http://hny0.sim", "key0", "ds"},
	{"http://hny0.sim", "key0", "my data/set?x"},
	{"http://hny0.sim", "key1", "ds"},
	{"http://hny1.sim", "key0", "ds"},
	{"http://hny1.sim:8443", "key2", "ünï"},
	// destinations that differ, but whose parts run into each other when written
	// one after another, with or without a separator
	{"http://hny0.sim", "team-1", "23-web"},
	{"http://hny0.sim", "team-12", "3-web"},
	{"http://hny0.sim", "k/", "d"},
	{"http://hny0.sim", "k", "/d"},
	{"http://hny0.sim", "k,d", "x"},
	{"http://hny0.sim", "k", "d,x"},
}

var txBehaviours = []string{"ok", "ok_msgpack", "short", "event_errors", "undecodable", "400", "500", "401", "429", "503", "429_ra0", "429_ra_big", "429_ra_neg", "429_ra_date", "503_ra_frac", "timeout", "slow_ok", "connerr"}

func genTransmit(r *Rng, tier string, p *Plan) {
	p.N["max_batch"] = int64(PickOf(r, 1, 2, 3, 5, 50, 500))
	p.N["batch_timeout_us"] = PickOf(r, int64(10_000), 40_000, 100_000, 1_000_000)
	p.N["send_timeout_us"] = PickOf(r, int64(500_000), 2_000_000, 10_000_000)
	p.N["compress"] = int64(r.Intn(2))
	p.N["fault_pct"] = int64(PickOf(r, 0, 0, 20, 50, 90))
	p.N["tick_jitter"] = int64(PickOf(r, 0, 0, 0, 1))
	nb := r.Range(1, 6)
	var beh []string
	for i := 0; i < nb; i++ {
		beh = append(beh, PickOf(r, txBehaviours...))
	}
	p.S["behaviours"] = strings.Join(beh, ",")
	n := r.Range(1, 25)
	if tier == "thorough" {
		n = r.Range(1, 80)
	}
	// a random subset of the destinations, so that the look-alike ones meet
	nd := r.Range(1, 5)
	var pick []int
	if r.Bool(0.3) {
		// a look-alike pair
		k := 5 + 2*r.Intn(3)
		pick = []int{k, k + 1}
		nd = 2
	} else {
		for len(pick) < nd {
			pick = append(pick, r.Intn(len(txDests)))
		}
	}
	big := r.Bool(0.15)
	now := int64(0)
	bt := p.N["batch_timeout_us"]
	if r.Bool(0.08) {
		// bulk: more than 5MB for one destination in one batch window
		p.N["max_batch"] = 500
		k := r.Range(13, 18)
		for i := 0; i < k; i++ {
			p.Add(Op{K: "ev", At: 0, I: int64(pick[0]), N: int64(PickOf(r, 400_000, 400_000, 700_000, 999_000)), M: 1})
		}
	}
	for i := 0; i < n; i++ {
		now += PickOf(r, int64(0), 0, 0, 1000, bt/4, bt/2, bt, bt+1, 3*bt)
		pad := int64(PickOf(r, 0, 10, 100, 1000))
		if big {
			pad = int64(PickOf(r, 10, 400_000, 400_000, 999_000, 999_900, 1_000_100, 1_200_000))
		}
		// B: while this event is being enqueued (at the point where the transmission
		// counts it as queued) a second producer enqueues one more for the same destination
		p.Add(Op{K: "ev", At: now, I: int64(pick[r.Intn(nd)]), N: pad, M: int64(PickOf(r, 0, 1, 7, 1<<31-1)), B: !big && r.Bool(0.15)})
	}
	if r.Bool(0.25) && now > 0 {
		// senders held up for a while: batches taken off the pending list wait to
		// be marshalled while more events are enqueued
		at := r.I64n(now + 1)
		p.Add(Op{K: "park_send", At: at})
		p.Add(Op{K: "release_send", At: at + PickOf(r, bt/2, bt, bt+bt/2, 3*bt)})
	}
	if r.Bool(0.6) {
		p.Add(Op{K: "stop", At: now + PickOf(r, int64(0), 1, bt/4, bt/2, bt, 5*bt)})
	}
	// the API hosts are written with a trailing slash (legal) in some plans
	p.N["host_slash"] = int64(PickOf(r, 0, 0, 0, 0, 1))
	p.SortOps()
}

func simplifyTransmit(p *Plan) []*Plan {
	var out []*Plan
	if p.S["behaviours"] != "ok" {
		q := p.Clone()
		q.S["behaviours"] = "ok"
		out = append(out, q)
		for _, b := range strings.Split(p.S["behaviours"], ",") {
			q := p.Clone()
			q.S["behaviours"] = b
			out = append(out, q)
		}
	}
	for k, v := range map[string]int64{"compress": 0, "tick_jitter": 0, "fault_pct": 100} {
		if p.N[k] != v {
			q := p.Clone()
			q.N[k] = v
			out = append(out, q)
		}
	}
	for i, op := range p.Ops {
		if op.K == "ev" && op.N > 10 && op.N < 900_000 {
			q := p.Clone()
			q.Ops[i].N = 0
			out = append(out, q)
		}
	}
	return out
}

type txEvent struct {
	op       Op
	id       string
	dest     txDest
	enqAt    time.Time
	bodies   map[string]bool // batch identities it appeared in
	oversize bool
}

type txAttempt struct {
	rec      *NetRec
	beh      string
	respAt   time.Duration
	retryAft time.Duration // Retry-After the server asked for (0: none/invalid)
	retryOK  bool          // a second attempt is allowed after this one
}

func runTransmit(t *testing.T, p *Plan) *Outcome {
	out := NewOutcome()
	pt := InBubble(t, func() {
		clk := NewSimClock("tx")
		drv := NewDriver(out, p.Seed, clk)
		net := NewSimNet(out)
		cfg := &config.MockConfig{}
		mm := metrics.NewMultiMetrics()
		mm.Config = cfg
		mm.Start()
		maxBatch := int(p.N["max_batch"])
		bt := us(p.N["batch_timeout_us"])
		tx := transmit.NewDirectTransmission(types.TransmitTypeUpstream, net.Transport(), maxBatch, bt, us(p.N["send_timeout_us"]), p.On("compress"), map[string]string{"X-Extra": "1"})
		upm := &upHookMetrics{Metrics: mm}
		tx.Config, tx.Logger, tx.Metrics, tx.Version, tx.Clock = cfg, &logger.NullLogger{}, upm, "verif", clk
		if err := tx.Start(); err != nil {
			out.Harness = err.Error()
			return
		}
		drv.Settle()
		gate := &SendGate{}
		gate.Install()
		defer gate.Uninstall()
		if p.On("tick_jitter") {
			drv.TickDelay = func(tk *SimTicker, fire int) time.Duration {
				if strings.Contains(tk.Key, "dispatchStaleBatches") && HF(p.Seed, "jit", tk.Key, fire) < 0.3 {
					return time.Duration(HF(p.Seed, "jitd", tk.Key, fire) * float64(bt/4))
				}
				return 0
			}
		}
		behs := strings.Split(p.S["behaviours"], ",")
		const site = "transmit.DirectTransmission"
		events := map[string]*txEvent{}
		attempts := map[string][]*txAttempt{} // by body identity
		var order []string
		bodyEvents := map[string][]string{}
		server := func(rec *NetRec, req *http.Request) *SimResp {
			sum := sha256.Sum256(rec.Body)
			ident := fmt.Sprintf("%x", sum[:8])
			var items []map[string]any
			if err := msgpack.Unmarshal(rec.Body, &items); err != nil {
				out.Violate("C26", "request_body_not_decodable", site, "request %d to %s%s: %v", rec.Seq, rec.Host, rec.Path, err)
				return &SimResp{Status: 400}
			}
			var ids []string
			for _, it := range items {
				d, _ := it["data"].(map[string]any)
				id, _ := d["id"].(string)
				ids = append(ids, id)
			}
			first := ""
			if len(ids) > 0 {
				first = ids[0]
			}
			net.mu.Lock()
			try := len(attempts[ident])
			if try == 0 {
				order = append(order, ident)
				bodyEvents[ident] = ids
			}
			at := &txAttempt{rec: rec}
			attempts[ident] = append(attempts[ident], at)
			net.mu.Unlock()
			beh := "ok"
			if HF(p.Seed, "fault", first, try)*100 < float64(p.N["fault_pct"]) {
				beh = behs[H(p.Seed, "beh", first, try)%uint64(len(behs))]
			}
			at.beh = beh
			if beh != "ok" {
				out.Fault("server_" + beh)
			}
			okBody := func(n int, bad map[int]int) []map[string]int {
				var rs []map[string]int
				for i := 0; i < n; i++ {
					st := 202
					if b, ok := bad[i]; ok {
						st = b
					}
					rs = append(rs, map[string]int{"status": st})
				}
				return rs
			}
			jsonResp := func(v any) *SimResp {
				b, _ := json.Marshal(v)
				return &SimResp{Status: 200, Header: http.Header{"Content-Type": {"application/json"}}, Body: b}
			}
			ra := func(status int, v string, allowed time.Duration) *SimResp {
				h := http.Header{}
				if v != "-" {
					h.Set("Retry-After", v)
				}
				at.retryAft = allowed
				at.retryOK = allowed > 0
				return &SimResp{Status: status, Header: h, Body: []byte(`{"error":"slow down"}`)}
			}
			var resp *SimResp
			switch beh {
			case "ok":
				resp = jsonResp(okBody(len(ids), nil))
			case "ok_msgpack":
				b, _ := msgpack.Marshal(okBody(len(ids), nil))
				resp = &SimResp{Status: 200, Header: http.Header{"Content-Type": {"application/msgpack"}}, Body: b}
			case "short":
				out.Probe("short_response")
				resp = jsonResp(okBody(len(ids)/2, nil))
			case "event_errors":
				resp = jsonResp(okBody(len(ids), map[int]int{0: 400, len(ids) - 1: 500}))
			case "undecodable":
				resp = &SimResp{Status: 200, Header: http.Header{"Content-Type": {"application/json"}}, Body: []byte("<html>oops")}
			case "400", "500", "401":
				var st int
				fmt.Sscan(beh, &st)
				resp = &SimResp{Status: st, Body: []byte(`{"error":"no"}`)}
			case "429":
				resp = ra(429, "1", time.Second)
			case "503":
				resp = ra(503, "-", time.Second) // missing header: default 1s
			case "429_ra0":
				resp = ra(429, "0", 0)
			case "429_ra_big":
				resp = ra(429, "60", 0)
			case "429_ra_neg":
				resp = ra(429, "-5", 0)
			case "429_ra_date":
				// an HTTP-date has one-second resolution
				when := time.Now().Add(2 * time.Second).UTC().Truncate(time.Second)
				resp = ra(429, when.Format(http.TimeFormat), when.Sub(time.Now()))
			case "503_ra_frac":
				resp = ra(503, "0.25", 250*time.Millisecond)
			case "timeout":
				at.retryOK = true
				resp = &SimResp{Hang: true}
			case "slow_ok":
				resp = jsonResp(okBody(len(ids), nil))
				resp.Delay = us(p.N["send_timeout_us"]) / 2
			case "connerr":
				resp = &SimResp{ConnErr: true}
			}
			at.respAt = rec.At + resp.Delay
			if resp.Hang {
				at.respAt = rec.At + us(p.N["send_timeout_us"])
			}
			return resp
		}
		for _, d := range txDests {
			u, _ := url.Parse(d.host)
			net.Handle(u.Host, server)
		}
		stopped := false
		var stopAt time.Time
		var last int64
		for _, op := range p.Ops {
			op := op
			if op.At > last {
				last = op.At
			}
			drv.AtSig(us(op.At), op.K, fmt.Sprintf("op/%d", op.ID), fmt.Sprintf("%d/%d", op.I, op.N), func() {
				switch op.K {
				case "ev":
					if stopped {
						return
					}
					d := txDests[op.I]
					if p.Get("host_slash", 0) == 1 {
						d.host += "/"
					}
					id := fmt.Sprintf("e%d", op.ID)
					data := map[string]any{"id": id, "n": op.ID}
					if op.N > 0 {
						data["pad"] = strings.Repeat("x", int(op.N))
					}
					pl := types.NewPayload(cfg, data)
					ev := &types.Event{Context: context.Background(), APIHost: d.host, APIKey: d.key, Dataset: d.dataset, SampleRate: uint(op.M),
						Timestamp: time.Unix(1700000000+int64(op.ID), 123000000).UTC(), Data: pl}
					events[id] = &txEvent{op: op, id: id, dest: d, enqAt: time.Now(), bodies: map[string]bool{}, oversize: op.N >= 1_000_000}
					if op.B {
						id2 := id + "b"
						data2 := map[string]any{"id": id2, "n": op.ID}
						if op.N > 0 {
							data2["pad"] = strings.Repeat("x", int(op.N))
						}
						pl2 := types.NewPayload(cfg, data2)
						ev2 := &types.Event{Context: context.Background(), APIHost: d.host, APIKey: d.key, Dataset: d.dataset, SampleRate: uint(op.M),
							Timestamp: time.Unix(1700000000+int64(op.ID), 123000000).UTC(), Data: pl2}
						events[id2] = &txEvent{op: op, id: id2, dest: d, enqAt: time.Now(), bodies: map[string]bool{}}
						upm.hook = func() {
							gid := make(chan int64, 1)
							done := make(chan struct{})
							go func() { gid <- goid(); tx.EnqueueEvent(ev2); close(done) }()
							awaitGoroutine(<-gid, done)
							<-done
							out.Probe("enqueue_overlapped_by_second_producer")
						}
					}
					tx.EnqueueEvent(ev)
					upm.hook = nil
				case "park_send":
					gate.Park()
					out.Fault("senders_held")
				case "release_send":
					gate.Release()
					if gate.Held > 0 {
						out.Probe("batch_waited_for_its_sender")
					}
				case "stop":
					stopped = true
					stopAt = time.Now()
					// Stop blocks until everything pending has been sent: run it
					// as its own task so that simulated time can pass meanwhile
					done := make(chan struct{})
					go func() { tx.Stop(); close(done) }()
					go func() {
						<-done
						out.Probe("stop_returned")
					}()
				}
			})
		}
		// whatever the plan says (a minimised plan may have lost its release), no
		// sender is held beyond the last operation
		drv.Run(us(last) + time.Microsecond)
		gate.Close()
		// run long enough for every retry (<= 60s Retry-After is never honoured, so 2x
		// timeout + sleeps) - of every request one sendBatch or one Stop may make one
		// after the other: a batch over 5 MB goes out as several requests, and Stop
		// flushes the destinations in turn
		big := 0
		for _, op := range p.Ops {
			if op.K == "ev" && op.N >= 400_000 {
				big++
			}
		}
		seq := time.Duration(big/4 + len(txDests) + 2)
		patience := seq*(2*us(p.N["send_timeout_us"])+3*time.Second) + 5*time.Second
		drv.Run(us(last) + patience + 2*bt)
		if !stopped {
			stopAt = time.Now()
			done := make(chan struct{})
			go func() { tx.Stop(); close(done) }()
			drv.Run(drv.Elapsed() + patience)
			select {
			case <-done:
			default:
				out.Violate("C26", "stop_does_not_return", site, "Stop() has not returned %v after it was called", time.Now().Sub(stopAt))
			}
		}

		// ---- oracles over the request log
		for _, ident := range order {
			atts := attempts[ident]
			ids := bodyEvents[ident]
			rec := atts[0].rec
			if len(rec.Body) > 5_000_000 {
				out.Violate("C26", "request_body_over_5MB", site, "request to %s%s carries %d bytes (uncompressed)", rec.Host, rec.Path, len(rec.Body))
			}
			if len(ids) > maxBatch {
				out.Violate("C26", "batch_over_max_batch_size", site, "batch of %d events, MaxBatchSize %d", len(ids), maxBatch)
			}
			if len(ids) == maxBatch && maxBatch > 1 {
				out.Probe("batch_dispatched_by_size")
			}
			for _, id := range ids {
				ev := events[id]
				if ev == nil {
					out.Violate("C26", "unknown_event_in_batch", site, "batch %s contains id %q that was never enqueued", ident, id)
					continue
				}
				ev.bodies[ident] = true
				u, _ := url.Parse(ev.dest.host)
				wantPath := "/1/batch/" + url.PathEscape(ev.dest.dataset)
				if rec.Host != u.Host || rec.Path != wantPath {
					out.Violate("C26", "event_sent_to_wrong_destination", site, "event %s for %s dataset %q was sent to %s%s", id, ev.dest.host, ev.dest.dataset, rec.Host, rec.Path)
				}
				if k := rec.Header.Get("X-Honeycomb-Team"); k != ev.dest.key {
					out.Violate("C26", "event_sent_with_wrong_api_key", site, "event %s has API key %q, request carries %q", id, ev.dest.key, k)
				}
				if ev.enqAt.After(stopAt) == false && stopped && rec.At >= stopAt.Sub(drv.Start) {
					out.Probe("pending_sent_by_stop")
				}
			}
			// content spot check on the first attempt
			var items []map[string]any
			msgpack.Unmarshal(rec.Body, &items)
			for i, it := range items {
				ev := events[ids[i]]
				if ev == nil {
					continue
				}
				d, _ := it["data"].(map[string]any)
				if padLen := len(fmt.Sprint(d["pad"])); ev.op.N > 0 && padLen != int(ev.op.N) {
					out.Violate("C26", "event_content_altered", site, "event %s: pad length %d, sent %d", ev.id, ev.op.N, padLen)
				}
				if sr, ok := i64(toNum(it["samplerate"])); !ok || sr != ev.op.M {
					out.Violate("C26", "event_content_altered", site, "event %s: sample rate %d, sent %v", ev.id, ev.op.M, it["samplerate"])
				}
			}
			// attempts
			if len(atts) > 2 {
				out.Violate("C26", "more_than_two_attempts", site, "batch starting with %s was attempted %d times", ids[0], len(atts))
			}
			for k := 1; k < len(atts); k++ {
				prev := atts[k-1]
				if !bytes.Equal(atts[k].rec.Body, rec.Body) {
					out.Violate("C26", "retry_body_differs", site, "retry of batch starting with %s has a different body", ids[0])
				}
				if !prev.retryOK {
					out.Violate("C26", "retry_not_allowed", site, "batch starting with %s was retried after server behaviour %q, which does not allow a retry", ids[0], prev.beh)
				} else if prev.beh == "timeout" {
					out.Probe("retry_after_timeout")
				} else {
					out.Probe("retry_after_429_503")
					if gap := atts[k].rec.At - prev.respAt; gap < prev.retryAft {
						out.Violate("C26", "retry_before_retry_after", site, "batch starting with %s retried %v after a %s asking for %v", ids[0], gap, prev.beh, prev.retryAft)
					}
				}
			}
			if len(atts) == 1 && strings.HasPrefix(atts[0].beh, "429_ra") && !atts[0].retryOK {
				out.Probe("no_retry_bad_retry_after")
			}
			// timing of the first attempt
			var firstEnq time.Time
			for _, id := range ids {
				if ev := events[id]; ev != nil && (firstEnq.IsZero() || ev.enqAt.Before(firstEnq)) {
					firstEnq = ev.enqAt
				}
			}
			if !p.On("tick_jitter") && !firstEnq.IsZero() && !gate.Overlaps(firstEnq, drv.Start.Add(rec.At)) {
				lat := drv.Start.Add(rec.At).Sub(firstEnq)
				if lat > bt+bt/4 {
					// a batch split off a larger one by the 5MB limit goes out after its predecessor's round trip
					split := false
					for _, id := range ids {
						if ev := events[id]; ev != nil && ev.op.N >= 100_000 {
							split = true
						}
					}
					if !split {
						out.Violate("C26", "batch_dispatched_late", site, "batch starting with %s first attempted %v after its first event was enqueued; BatchTimeout %v (limit 1.25x)", ids[0], lat, bt)
					}
				}
			}
		}
		// exactly one batch identity per event
		ids := make([]string, 0, len(events))
		for id := range events {
			ids = append(ids, id)
		}
		sort.Strings(ids)
		nOversize := 0
		for _, id := range ids {
			ev := events[id]
			switch {
			case ev.oversize:
				nOversize++
				out.Probe("oversized_event_dropped")
				if len(ev.bodies) > 0 {
					out.Violate("C26", "oversized_event_sent", site, "event %s serializes to more than 1MB but was sent", id)
				}
			case len(ev.bodies) == 0:
				out.Violate("C26", "event_never_sent", site, "event %s (dest %v, pad %d) enqueued at t=%v was in no request even after Stop", id, ev.dest, ev.op.N, ev.enqAt.Sub(drv.Start))
			case len(ev.bodies) > 1:
				out.Violate("C26", "event_in_two_batches", site, "event %s appears in %d different batches", id, len(ev.bodies))
			}
		}
		// body-size split probe
		perDest := map[txDest]int{}
		for _, ident := range order {
			if len(attempts[ident][0].rec.Body) > 2_500_000 {
				perDest[txDests[0]]++
			}
		}
		if len(perDest) > 0 {
			out.Probe("batch_split_by_body_size")
		}
		if v, _ := mm.Get("libhoney_upstream_queued_items"); v != 0 {
			out.Violate("C26", "queued_items_not_zero", site, "every event has an outcome and Stop has returned, but the queued-items value is %v", v)
		}
		for _, ident := range order {
			line := fmt.Sprintf("batch %v", bodyEvents[ident])
			for _, a := range attempts[ident] {
				line += fmt.Sprintf(" [t=%v %s%s %s]", a.rec.At, a.rec.Host, a.rec.Path, a.beh)
			}
			out.Log = append(out.Log, line)
		}
		sort.Strings(out.Log)
	})
	if pt != "" && out.Harness == "" {
		out.Harness = "panic: " + pt
	}
	return out
}

func toNum(v any) any {
	switch x := v.(type) {
	case int8:
		return int64(x)
	case int16:
		return int64(x)
	case int32:
		return int64(x)
	case uint8:
		return int64(x)
	case uint16:
		return int64(x)
	case uint32:
		return int64(x)
	case uint64:
		return int64(x)
	}
	return v
}

func zstdWarm() []byte {
	enc, _ := zstd.NewWriter(nil)
	return enc.EncodeAll([]byte("warm"), nil)
}
