//go:build verif

package verifsim

import (
	"context"
	"fmt"
	"sync"
	"time"

	"github.com/honeycombio/refinery/pubsub"
)

// SimBus / SimPubSub stand in for Redis pub/sub. They are deliberately at
// least as adversarial as the real thing where refinery's contract allows it:
// every delivery is an individual scheduler stimulus (so any delivery order is
// possible, as with the real implementation, which runs every callback in its
// own goroutine), a delivery can be delayed, lost, or cut by a partition, and
// a publisher receives its own messages. Decisions are keyed by the stable
// identity (publisher, topic, per-publisher sequence, subscriber).

type BusFaults struct {
	DelayMax time.Duration
	LossRate float64
}

type SimBus struct {
	// Expect: topic -> nodes that are meant to be listening on it. A message for
	// such a node that finds no subscription there is still reported to OnDeliver
	// (at the time it would have arrived), so that a reference model fed by
	// OnDeliver does not simply agree with a node that listens on the wrong topic.
	Expect map[string][]string
	// Prefix: what RedisPeerManagement.ClusterName is to the Redis pubsub - every
	// endpoint's FormatTopic puts it in front of the topic
	Prefix string
	mu     sync.Mutex
	drv    *Driver
	out    *Outcome
	seed   uint64
	eps    []*SimPubSub
	Faults BusFaults
	cut    map[string]bool // partitioned nodes
	seq    map[string]int
	// OnDeliver observes deliveries (after the callback has been started).
	OnPublish func(node, topic, msg string)
	// OnDeliver observes a delivery, in the delivery step, just before the callback runs.
	OnDeliver func(toNode, topic, msg string)
}

func NewSimBus(drv *Driver, out *Outcome, seed uint64) *SimBus {
	return &SimBus{drv: drv, out: out, seed: seed, cut: map[string]bool{}, seq: map[string]int{}}
}

func (b *SimBus) Endpoint(node string) *SimPubSub {
	ep := &SimPubSub{bus: b, node: node, Prefix: b.Prefix}
	b.mu.Lock()
	b.eps = append(b.eps, ep)
	b.mu.Unlock()
	return ep
}

func (b *SimBus) Partition(node string, cut bool) {
	b.mu.Lock()
	b.cut[node] = cut
	b.mu.Unlock()
}

// Inject publishes a message as if from an external node.
func (b *SimBus) Inject(from, topic, msg string) { b.publish(from, topic, msg) }

func (b *SimBus) publish(from, topic, msg string) {
	b.mu.Lock()
	k := from + "\x00" + topic
	b.seq[k]++
	seq := b.seq[k]
	var targets []*simSub
	for _, ep := range b.eps {
		if ep.closed {
			continue
		}
		for _, s := range ep.subs {
			if s.topic == topic && !s.closed {
				targets = append(targets, s)
			}
		}
	}
	fromCut := b.cut[from]
	var phantoms []string
	for _, node := range b.Expect[topic] {
		found := false
		for _, s := range targets {
			if s.ep.node == node {
				found = true
			}
		}
		if !found && !fromCut {
			phantoms = append(phantoms, node)
		}
	}
	b.mu.Unlock()
	if b.OnPublish != nil {
		b.OnPublish(from, topic, msg)
	}
	for _, node := range phantoms {
		node := node
		b.drv.AtAbs(time.Now(), "pubsub", fmt.Sprintf("pubsub/%s/%s/%d->%s/nobody", from, topic, seq, node), func() {
			b.out.Probe("message_for_a_node_not_listening_on_its_topic")
			if b.OnDeliver != nil {
				b.OnDeliver(node, topic, msg)
			}
		})
	}
	for _, s := range targets {
		s := s
		ident := fmt.Sprintf("pubsub/%s/%s/%d->%s/%d", from, topic, seq, s.ep.node, s.idx)
		if fromCut {
			b.out.Fault("pubsub_partition_drop")
			continue
		}
		if b.Faults.LossRate > 0 && s.ep.node != from && HF(b.seed, "loss", ident) < b.Faults.LossRate {
			b.out.Fault("pubsub_loss")
			continue
		}
		var delay time.Duration
		if b.Faults.DelayMax > 0 {
			delay = time.Duration(HF(b.seed, "delay", ident) * float64(b.Faults.DelayMax))
			delay = delay / time.Microsecond * time.Microsecond
			if delay > 0 {
				b.out.Fault("pubsub_delay")
			}
		}
		b.drv.AtAbs(time.Now().Add(delay), "pubsub", ident, func() {
			b.mu.Lock()
			dead := s.closed || s.ep.closed || b.cut[s.ep.node]
			b.mu.Unlock()
			if dead {
				if b.cut[s.ep.node] {
					b.out.Fault("pubsub_partition_drop")
				}
				return
			}
			if b.OnDeliver != nil {
				b.OnDeliver(s.ep.node, topic, msg)
			}
			go s.cb(context.Background(), msg)
		})
	}
}

// DeliverNow hands msg to every live subscriber of topic at once, each on a
// goroutine of its own, and returns those goroutines' ids and a channel per
// delivery that is closed when the subscriber's callback has returned. For a
// delivery that has to land inside another operation.
func (b *SimBus) DeliverNow(from, topic, msg string) (ids []int64, dones []chan struct{}) {
	b.mu.Lock()
	var targets []*simSub
	for _, ep := range b.eps {
		if ep.closed || b.cut[ep.node] {
			continue
		}
		for _, s := range ep.subs {
			if s.topic == topic && !s.closed {
				targets = append(targets, s)
			}
		}
	}
	var phantoms []string
	for _, node := range b.Expect[topic] {
		found := false
		for _, s := range targets {
			if s.ep.node == node {
				found = true
			}
		}
		if !found && !b.cut[node] {
			phantoms = append(phantoms, node)
		}
	}
	b.mu.Unlock()
	for _, node := range phantoms {
		b.out.Probe("message_for_a_node_not_listening_on_its_topic")
		if b.OnDeliver != nil {
			b.OnDeliver(node, topic, msg)
		}
	}
	for _, s := range targets {
		s := s
		if b.OnDeliver != nil {
			b.OnDeliver(s.ep.node, topic, msg)
		}
		gid := make(chan int64, 1)
		done := make(chan struct{})
		go func() { gid <- goid(); s.cb(context.Background(), msg); close(done) }()
		ids = append(ids, <-gid)
		dones = append(dones, done)
	}
	return ids, dones
}

type simSub struct {
	ep     *SimPubSub
	idx    int
	topic  string
	cb     pubsub.SubscriptionCallback
	closed bool
}

func (s *simSub) Close() {
	s.ep.bus.mu.Lock()
	s.closed = true
	s.ep.bus.mu.Unlock()
}

type SimPubSub struct {
	bus    *SimBus
	node   string
	subs   []*simSub
	closed bool
	Prefix string
}

var _ pubsub.PubSub = (*SimPubSub)(nil)

func (p *SimPubSub) Start() error { return nil }
func (p *SimPubSub) Stop() error  { p.Close(); return nil }
func (p *SimPubSub) Close() {
	p.bus.mu.Lock()
	p.closed = true
	p.bus.mu.Unlock()
}
func (p *SimPubSub) FormatTopic(topic string) string {
	if p.Prefix != "" {
		return p.Prefix + ":" + topic
	}
	return topic
}
func (p *SimPubSub) Publish(ctx context.Context, topic, message string) error {
	p.bus.mu.Lock()
	closed := p.closed
	p.bus.mu.Unlock()
	if closed {
		return fmt.Errorf("simpubsub: closed")
	}
	p.bus.publish(p.node, topic, message)
	return nil
}
func (p *SimPubSub) Subscribe(ctx context.Context, topic string, cb pubsub.SubscriptionCallback) pubsub.Subscription {
	p.bus.mu.Lock()
	defer p.bus.mu.Unlock()
	s := &simSub{ep: p, idx: len(p.subs), topic: topic, cb: cb}
	p.subs = append(p.subs, s)
	return s
}
