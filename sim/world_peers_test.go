//go:build verif

package verifsim

import (
	"fmt"
	"sort"
	"strings"
	"testing"
	"time"

	"github.com/honeycombio/refinery/config"
	"github.com/honeycombio/refinery/internal/peer"
	"github.com/honeycombio/refinery/logger"
	"github.com/honeycombio/refinery/sharder"
)

// C18 (World D): Redis peer membership converges to the live, publishing nodes.
//
// Real: N x peer.RedisPubsubPeers (message codec, listen, refresh loop on a
// SimClock ticker, unregister on stop), generics.MapWithTTL.
// Stub: SimPubSub in place of Redis (delay, reordering, loss, partitions);
// node start / graceful stop / crash / restart are done by the driver.
//
// Oracle: after the last membership change or fault at T, for every t >=
// T + PeerEntryTimeout + one (maximally jittered) refresh interval + delay bound,
// every running node's GetPeers() is exactly the set of the running nodes'
// addresses. At all times GetPeers() only ever contains addresses that some
// node really had (codec corruption shows up here).

func init() {
	Register(&Check{
		ID: "C18", World: "D/membership", Gen: genPeers, Run: runPeers,
		OwnProbes: []string{"entry_checked_in_second_half_of_lifetime", "graceful_stop", "crash", "restart_new_instance_id", "unregister_overtaken_by_register", "pubsub_loss", "partition_healed", "awkward_identity"},
		Real:      []string{"internal/peer.RedisPubsubPeers (Start, Ready refresh loop, listen, stop, GetPeers, message codec)", "generics.MapWithTTL"},
		Stub:      []string{"Redis pub/sub (SimPubSub: delay, reorder, loss, partition)", "clock (SimClock)", "config (MockConfig)", "node lifecycle (driver)"},
	})
}

var awkwardIdents = []string{"refinery-0.refinery.svc.cluster.local", "10.0.0.7", "[fe80::1]", "host_with_underscore", "r,1", "a,b,c", "R", "U-host"}

func genPeers(r *Rng, tier string, p *Plan) {
	n := r.Range(1, 4)
	if tier == "thorough" {
		n = r.Range(1, 6)
	}
	p.N["nodes"] = int64(n)
	p.N["delay_max_us"] = PickOf(r, int64(0), 1000, 200_000, 1_500_000, 4_000_000)
	p.N["loss_pct"] = int64(PickOf(r, 0, 0, 10, 40))
	if r.Bool(0.25) {
		p.N["awkward"] = 1
	}
	now := int64(0)
	running := map[int]bool{}
	for i := 0; i < n; i++ {
		if r.Bool(0.8) {
			now += r.I64n(2_000_000)
			p.Add(Op{K: "start", At: now, I: int64(i)})
			running[i] = true
		}
	}
	steps := r.Range(0, 8)
	if tier == "thorough" {
		steps = r.Range(0, 20)
	}
	for s := 0; s < steps; s++ {
		now += PickOf(r, int64(0), 100_000, 1_000_000, 3_000_000, 5_000_000, 11_000_000)
		i := r.Intn(n)
		switch {
		case !running[i]:
			p.Add(Op{K: "start", At: now, I: int64(i)})
			running[i] = true
		case r.Bool(0.4):
			p.Add(Op{K: "stop", At: now, I: int64(i)})
			running[i] = false
		case r.Bool(0.4):
			p.Add(Op{K: "crash", At: now, I: int64(i)})
			running[i] = false
		case r.Bool(0.5):
			d := PickOf(r, int64(500_000), 4_000_000, 12_000_000)
			p.Add(Op{K: "partition", At: now, I: int64(i)})
			p.Add(Op{K: "heal", At: now + d, I: int64(i)})
			now += d
		default:
			// restart at once: stop (or crash) and start again with a new instance id
			p.Add(Op{K: PickOf(r, "stop", "crash"), At: now, I: int64(i)})
			p.Add(Op{K: "start", At: now + PickOf(r, int64(0), 1000, 2_000_000), I: int64(i)})
		}
	}
	p.N["cluster_name"] = int64(PickOf(r, 0, 0, 1))
	p.SortOps()
}

// subscribeHookPeers is what the sharder sees as Peers in the with_sharder runs.
type subscribeHookPeers struct {
	peer.Peers
	hook func()
}

func (s *subscribeHookPeers) RegisterUpdatedPeersCallback(cb func()) {
	if h := s.hook; h != nil {
		s.hook = nil
		h()
	}
	s.Peers.RegisterUpdatedPeersCallback(cb)
}

type peerNode struct {
	idx     int
	addr    string
	running bool
	inc     int
	p       *peer.RedisPubsubPeers
	ep      *SimPubSub
	done    chan struct{}
	sh      *sharder.DeterministicSharder // with_sharder runs (C17)
}

func runPeers(t *testing.T, p *Plan) *Outcome {
	out := NewOutcome()
	pt := InBubble(t, func() {
		n := int(p.N["nodes"])
		var clocks []*SimClock
		for i := 0; i < n; i++ {
			clocks = append(clocks, NewSimClock(fmt.Sprintf("n%d", i)))
		}
		drv := NewDriver(out, p.Seed, clocks...)
		bus := NewSimBus(drv, out, p.Seed)
		bus.Prefix = clusterPrefix(p)
		bus.Faults = BusFaults{DelayMax: us(p.N["delay_max_us"]), LossRate: float64(p.N["loss_pct"]) / 100}
		nodes := make([]*peerNode, n)
		validAddr := map[string]bool{}
		for i := range nodes {
			ident := fmt.Sprintf("node%d", i)
			if p.On("awkward") {
				ident = awkwardIdents[int(H(p.Seed, "ident", i)%uint64(len(awkwardIdents)))] + fmt.Sprint(i)
				out.Probe("awkward_identity")
			}
			nodes[i] = &peerNode{idx: i, addr: fmt.Sprintf("http://%s:8081", ident)}
			validAddr[nodes[i].addr] = true
		}
		const site = "internal/peer.RedisPubsubPeers"
		// lastReg[receiver][instance id] = when the receiver last processed a
		// registration of that instance (an unregistration clears it)
		type regRec struct {
			at   time.Time
			addr string
		}
		lastReg := map[string]map[string]regRec{}
		start := func(nd *peerNode) {
			if nd.running {
				return
			}
			nd.inc++
			delete(lastReg, fmt.Sprintf("n%d", nd.idx)) // a new process knows nothing
			if nd.inc > 1 {
				out.Probe("restart_new_instance_id")
			}
			cfg := &config.MockConfig{GetPeerListenAddrVal: "0.0.0.0:8081", RedisIdentifier: nd.addr[len("http://") : len(nd.addr)-len(":8081")], PeerTimeout: time.Second}
			nd.ep = bus.Endpoint(fmt.Sprintf("n%d", nd.idx))
			nd.done = make(chan struct{})
			nd.p = &peer.RedisPubsubPeers{Config: cfg, Logger: &logger.NullLogger{}, PubSub: nd.ep, Clock: clocks[nd.idx],
				InstanceID: fmt.Sprintf("%08x", uint32(H(p.Seed, "inst", nd.idx, nd.inc))), Done: nd.done}
			if err := nd.p.Start(); err != nil {
				out.Harness = "peers start: " + err.Error()
				return
			}
			if err := nd.p.Ready(); err != nil {
				out.Harness = "peers ready: " + err.Error()
				return
			}
			if p.On("with_sharder") {
				// the sharder reaches the peers through a double that can let another
				// node's registration arrive in the middle of the sharder's Start (at the
				// moment it subscribes to membership changes)
				sp := &subscribeHookPeers{Peers: nd.p}
				for _, o := range nodes {
					if o != nd && o.running && H(p.Seed, "join-during-start", nd.idx, nd.inc)%2 == 0 {
						o := o
						sp.hook = func() {
							msg := fmt.Sprintf("R%s,%08x", o.addr, uint32(H(p.Seed, "inst", o.idx, o.inc)))
							ids, dones := bus.DeliverNow(fmt.Sprintf("n%d", o.idx), nd.ep.FormatTopic("peers"), msg)
							for i := range ids {
								awaitGoroutine(ids[i], dones[i])
							}
							out.Probe("registration_arrived_while_sharder_started")
						}
						break
					}
				}
				nd.sh = &sharder.DeterministicSharder{Config: cfg, Logger: &logger.NullLogger{}, Peers: sp}
				if err := nd.sh.Start(); err != nil {
					out.Harness = "sharder start: " + err.Error()
					return
				}
			}
			nd.running = true
		}
		stop := func(nd *peerNode, graceful bool) {
			if !nd.running {
				return
			}
			if graceful {
				out.Probe("graceful_stop")
				close(nd.done) // publishes the unregister message
				drv.Settle()
				nd.ep.Close()
			} else {
				out.Probe("crash")
				nd.ep.Close() // nothing more is heard from it, nothing is said
				close(nd.done)
			}
			nd.running = false
		}
		bus.OnDeliver = func(to, topic, msg string) {
			if i := strings.LastIndex(msg, ","); i > 0 && len(msg) > 1 {
				id, addr := msg[i+1:], msg[1:i]
				if lastReg[to] == nil {
					lastReg[to] = map[string]regRec{}
				}
				if msg[0] == 'R' {
					lastReg[to][id] = regRec{time.Now(), addr}
				} else if msg[0] == 'U' {
					delete(lastReg[to], id)
				}
			}
			// a register message arriving after its sender's unregister (or crash)
			if len(msg) > 0 && msg[0] == 'R' {
				for _, nd := range nodes {
					if !nd.running && nd.inc > 0 && len(msg) > len(nd.addr) && msg[1:1+len(nd.addr)] == nd.addr {
						out.Probe("unregister_overtaken_by_register")
					}
				}
			}
		}
		snapshot := func(where string, converged bool) {
			var want []string
			for _, nd := range nodes {
				if nd.running {
					want = append(want, nd.addr)
				}
			}
			sort.Strings(want)
			for _, nd := range nodes {
				if !nd.running {
					continue
				}
				got, err := nd.p.GetPeers()
				if err != nil {
					out.Violate("C18", "get_peers_error", site, "%s: node %d: %v", where, nd.idx, err)
					continue
				}
				for _, a := range got {
					if !validAddr[a] {
						out.Violate("C18", "corrupted_address", site+".peerCommand", "%s: node %d lists %q, which is no node's address (addresses: %v)", where, nd.idx, a, want)
					}
				}
				// an entry lives for the peer entry timeout after the last processed
				// registration: a peer whose registration this node processed less
				// than PeerEntryTimeout ago (and has not unregistered since) is listed
				inList := map[string]bool{}
				for _, a := range got {
					inList[a] = true
				}
				for id, r := range lastReg[fmt.Sprintf("n%d", nd.idx)] {
					if age := time.Now().Sub(r.at); age < peer.PeerEntryTimeout && validAddr[r.addr] {
						if age > peer.PeerEntryTimeout/2 {
							out.Probe("entry_checked_in_second_half_of_lifetime")
						}
						if !inList[r.addr] {
							out.Violate("C18", "peer_entry_expired_early", site, "%s: node %d processed a registration of %s (instance %s) %v ago, no unregistration since, PeerEntryTimeout is %v, but the address is not in its peer list %v", where, nd.idx, r.addr, id, age, peer.PeerEntryTimeout, got)
						}
					}
				}
				if converged {
					g := append([]string(nil), got...)
					sort.Strings(g)
					if fmt.Sprint(g) != fmt.Sprint(want) {
						out.Violate("C18", "membership_not_converged", site, "%s: node %d sees %v, the running nodes are %v", where, nd.idx, g, want)
					}
				}
				out.Logf("%s node%d peers=%v", where, nd.idx, got)
			}
			if converged && p.On("with_sharder") {
				shardersAgree(p, out, nodes, where)
			}
		}
		var last int64
		for _, op := range p.Ops {
			op := op
			if op.At > last {
				last = op.At
			}
			drv.AtSig(us(op.At), op.K, fmt.Sprintf("op/%d", op.ID), fmt.Sprint(op.I), func() {
				if int(op.I) >= n {
					return
				}
				nd := nodes[op.I]
				switch op.K {
				case "start":
					start(nd)
				case "stop":
					stop(nd, true)
				case "crash":
					stop(nd, false)
				case "partition":
					bus.Partition(fmt.Sprintf("n%d", nd.idx), true)
					out.Fault("pubsub_partition")
				case "heal":
					bus.Partition(fmt.Sprintf("n%d", nd.idx), false)
					out.Probe("partition_healed")
				}
			})
		}
		drv.AfterStep = func(kind, ident string) {
			if kind != "tick" {
				snapshot("after "+ident, false)
			}
		}
		for ts := int64(700_000); ts < last; ts += 700_000 {
			drv.At(us(ts), "probe", fmt.Sprintf("probe/%d", ts), func() {})
		}
		drv.Run(us(last) + time.Microsecond)
		// faults stop here
		if bus.Faults.LossRate > 0 && out.Faults["pubsub_loss"] > 0 {
			out.Probe("pubsub_loss")
		}
		bus.Faults.LossRate = 0
		for i := range nodes {
			bus.Partition(fmt.Sprintf("n%d", i), false)
		}
		// refresh interval is 3s + up to 20% jitter
		bound := peer.PeerEntryTimeout + 3600*time.Millisecond + bus.Faults.DelayMax + 100*time.Millisecond
		drv.Run(us(last) + bound)
		for k := 0; k < 6; k++ {
			snapshot(fmt.Sprintf("converged+%ds", 3*k), true)
			drv.Run(drv.Elapsed() + 3*time.Second)
		}
		for _, nd := range nodes {
			stop(nd, true)
		}
		drv.Settle()
	})
	if pt != "" && out.Harness == "" {
		out.Harness = "panic: " + pt
	}
	return out
}

// shardersAgree (C17 in World D): once membership has converged, every node's
// sharder names, for every trace ID, an owner that is in the peer list the node
// sees, and nodes seeing the same list name the same owner.
func shardersAgree(p *Plan, out *Outcome, nodes []*peerNode, where string) {
	const site = "sharder.DeterministicSharder on internal/peer.RedisPubsubPeers"
	type view struct {
		nd   *peerNode
		list string
	}
	var views []view
	crashed := false
	for _, nd := range nodes {
		if !nd.running && nd.inc > 0 {
			crashed = true
		}
		if !nd.running || nd.sh == nil {
			continue
		}
		got, err := nd.p.GetPeers()
		if err != nil {
			continue
		}
		g := append([]string(nil), got...)
		sort.Strings(g)
		views = append(views, view{nd, fmt.Sprint(g)})
		in := map[string]bool{}
		for _, a := range got {
			in[a] = true
		}
		for k := 0; k < 32; k++ {
			tid := fmt.Sprintf("%032x", H(p.Seed, "tid", k))
			if o := nd.sh.WhichShard(tid).GetAddress(); !in[o] {
				out.Violate("C17", "owner_not_a_peer", site, "%s: node %d sees peers %v but names %s owner of trace %s", where, nd.idx, g, o, tid)
				break
			}
		}
	}
	for i := 1; i < len(views); i++ {
		if views[i].list != views[0].list {
			continue
		}
		for k := 0; k < 32; k++ {
			tid := fmt.Sprintf("%032x", H(p.Seed, "tid", k))
			a, b := views[0].nd.sh.WhichShard(tid).GetAddress(), views[i].nd.sh.WhichShard(tid).GetAddress()
			if a != b {
				out.Violate("C17", "nodes_disagree_on_owner", site, "%s: nodes %d and %d both see %s; for trace %s one says %s, the other %s", where, views[0].nd.idx, views[i].nd.idx, views[0].list, tid, a, b)
				break
			}
		}
	}
	if crashed && len(views) > 0 {
		out.Probe("sharder_on_redis_peers_after_crash")
	}
}
