//go:build verif

package verifsim

import (
	"bytes"
	"compress/gzip"
	"encoding/json"
	"fmt"
	"io"
	"net/http"
	"net/url"
	"runtime/debug"
	"sort"
	"strings"
	"sync"
	"sync/atomic"
	"time"

	"github.com/facebookgo/inject"
	"github.com/facebookgo/startstop"
	"github.com/jonboulle/clockwork"
	"github.com/klauspost/compress/zstd"
	"github.com/vmihailenco/msgpack/v5"
	"go.opentelemetry.io/otel/trace"
	"go.opentelemetry.io/otel/trace/noop"

	"github.com/honeycombio/refinery/app"
	"github.com/honeycombio/refinery/collect"
	"github.com/honeycombio/refinery/config"
	"github.com/honeycombio/refinery/internal/configwatcher"
	"github.com/honeycombio/refinery/internal/health"
	"github.com/honeycombio/refinery/internal/peer"
	"github.com/honeycombio/refinery/logger"
	"github.com/honeycombio/refinery/metrics"
	"github.com/honeycombio/refinery/sample"
	"github.com/honeycombio/refinery/sharder"
	"github.com/honeycombio/refinery/transmit"
	"github.com/honeycombio/refinery/types"
)

// World B: 1-4 complete refinery nodes wired like cmd/refinery/main.go
// (facebookgo/inject + startstop): both routers behind their real gorilla mux
// and middleware (invoked in-process), InMemCollector, StressRelief, two
// DirectTransmissions with their real http.Client, DeterministicSharder,
// FilePeers or RedisPubsubPeers, Health, MultiMetrics, SamplerFactory,
// ConfigWatcher, App. Doubles: SimNet (peer HTTP, fake Honeycomb /1/batch,
// /1/auth), SimPubSub, SimClock, MockConfig, simulated clients.

var bReal = []string{"route.Router x2 per node (real mux + middleware, in-process)", "collect.InMemCollector", "transmit.DirectTransmission x2 per node (real http.Client, zstd, msgpack)", "sharder.DeterministicSharder", "internal/peer.FilePeers / RedisPubsubPeers", "collect.StressRelief", "internal/health.Health", "metrics.MultiMetrics", "sample.SamplerFactory", "internal/configwatcher.ConfigWatcher", "app.App", "facebookgo inject + startstop wiring as in cmd/refinery/main.go"}
var bStub = []string{"network (SimNet: peer HTTP and a fake Honeycomb API /1/batch, /1/auth)", "Redis (SimPubSub)", "clock (SimClock per node)", "config (MockConfig)", "SDK clients (simulated)", "gRPC listeners (not started)", "logger (NullLogger)"}

const hnyHost = "api.hny.sim"
const legacyKey = "abcdef0123456789abcdef0123456789"
const legacyKey2 = "0123456789abcdef0123456789abcdef"                             // a second tenant
const envKey = "hcxik_01hqk4k20cjeh63wca8vva5stwhcxik01hqk4k20cjeh63wca8vva5stw0" // environment-scoped ingest key

type nullStartStopLogger struct{}

func (nullStartStopLogger) Debugf(string, ...interface{}) {}
func (nullStartStopLogger) Errorf(string, ...interface{}) {}

type bNode struct {
	w        *worldB
	idx      int
	name     string
	addr     string // peer address as others see it
	cfg      *config.MockConfig
	clk      *SimClock
	tr       *SimTracer
	app      *app.App
	coll     *collect.InMemCollector
	sr       *collect.StressRelief
	hl       *health.Health
	mm       *metrics.MultiMetrics
	shard    sharder.Sharder
	upTx     *transmit.DirectTransmission
	peerTx   *transmit.DirectTransmission
	objects  []*inject.Object
	done     chan struct{}
	running  bool
	stopping bool
	heap     uint64
	down     atomic.Bool
	inflight sync.WaitGroup // handlers in progress; http.Server.Shutdown waits for them in production
	admitMu  sync.Mutex     // a listener either accepts a connection or has been closed: admission and closing exclude each other
	heapOnce atomic.Uint64  // one-shot simulated heap reading (race mode: set without a lock)
}

// hnyEvent is one event as finally received by the fake Honeycomb API.
type hnyEvent struct {
	at      time.Duration
	step    int
	from    string // sending node
	host    string
	path    string
	dataset string
	apiKey  string
	rate    int64
	ts      time.Time
	data    map[string]any
	marker  string
}

// peerDelivery is one event as received by a node's peer listener.
type peerDelivery struct {
	at     time.Duration
	from   string
	to     string
	marker string
	data   map[string]any
	rate   int64
	apiKey string
	ds     string
	ts     time.Time
	probe  bool
}

type worldB struct {
	p     *Plan
	out   *Outcome
	drv   *Driver
	net   *SimNet
	bus   *SimBus
	nodes []*bNode
	start time.Time

	mu             sync.Mutex
	hny            []*hnyEvent
	peerLog        []*peerDelivery
	stateless      bool // race mode: record nothing, take no harness lock on refinery's paths
	bufferedAtStop map[string]bool
	queuedAtStop   bool
	authCalls      int
	crashed        bool   // a component panicked while stopping: what is left of the node keeps running in the bubble
	authMode       string // ok | fail | timeout
	// Honeycomb too busy: from busyFrom on, the next busyLeft batches that have
	// not been refused before are answered 429/503 with Retry-After
	busyFrom       time.Duration
	busyLeft       int
	busyStatus     int
	busyRetryAfter int
	busySeen       map[string]bool
	stopAt         time.Duration // when the shutdown was requested (0: not a shutdown run)
	selfSend       int
	// per-node transports are tagged so that the SimNet knows the sender
	collectorAdds map[string][]string // marker -> nodes whose collector accepted it (via tracer observation)
}

type taggedRT struct {
	net  *SimNet
	from string
}

func (t *taggedRT) RoundTrip(req *http.Request) (*http.Response, error) {
	req.Header.Set("X-Sim-From", t.from)
	return t.net.RoundTrip(req)
}

func (w *worldB) transportFor(node string) *http.Transport {
	t := &http.Transport{}
	t.RegisterProtocol("http", &taggedRT{net: w.net, from: node})
	return t
}

type bOpts struct {
	nodes        int
	peerType     string // file | redis
	workers      int
	traceTimeout time.Duration
	sendDelay    time.Duration
	sendTicker   time.Duration
	batchTimeout time.Duration
	maxBatch     int
	stressMode   string
	stressRate   uint64 // StressRelief.SamplingRate; 0 = 2
	inQueue      int
	sampler      any
	samplerName  string
	shuffleSeed  uint64
}

func newWorldB(p *Plan, out *Outcome, o bOpts) *worldB {
	w := &worldB{p: p, out: out, start: time.Now(), authMode: "ok", collectorAdds: map[string][]string{}}
	var clocks []*SimClock
	for i := 0; i < o.nodes; i++ {
		clocks = append(clocks, NewSimClock(fmt.Sprintf("n%d", i)))
	}
	w.drv = NewDriver(out, p.Seed, clocks...)
	w.net = NewSimNet(out)
	w.bus = NewSimBus(w.drv, out, p.Seed)
	w.bus.Prefix = clusterPrefix(p)
	var addrs []string
	for i := 0; i < o.nodes; i++ {
		addrs = append(addrs, fmt.Sprintf("http://n%d.sim:8081", i))
	}
	for i := 0; i < o.nodes; i++ {
		n := &bNode{w: w, idx: i, name: fmt.Sprintf("n%d", i), addr: addrs[i], clk: clocks[i]}
		// every node gets the same peer list in a different order (file peers
		// list the *other* nodes; FilePeers appends the node itself)
		var others []string
		for j, a := range addrs {
			if j != i {
				others = append(others, a)
			}
		}
		sort.Slice(others, func(a, b int) bool { return H(o.shuffleSeed, i, others[a]) < H(o.shuffleSeed, i, others[b]) })
		n.cfg = &config.MockConfig{
			GetHoneycombAPIVal:               "http://" + hnyHost + apiSuffix(p),
			GetListenAddrVal:                 "0.0.0.0:8080",
			GetPeerListenAddrVal:             "0.0.0.0:8081",
			RedisIdentifier:                  fmt.Sprintf("n%d.sim", i),
			PeerManagementType:               o.peerType,
			GetPeersVal:                      others,
			PeerTimeout:                      time.Second,
			GetCompressPeerCommunicationsVal: H(p.Seed, "zpeer")%2 == 0,
			EnvironmentCacheTTL:              time.Hour,
			GetTracesConfigVal: config.TracesConfig{
				SendTicker: config.Duration(o.sendTicker), SendDelay: config.Duration(o.sendDelay), TraceTimeout: config.Duration(o.traceTimeout),
				MaxBatchSize: uint(o.maxBatch), BatchTimeout: config.Duration(o.batchTimeout),
			},
			GetCollectionConfigVal: config.CollectionConfig{WorkerCount: o.workers, IncomingQueueSize: o.inQueue, PeerQueueSize: o.inQueue, HealthCheckTimeout: config.Duration(3 * time.Second), ShutdownDelay: config.Duration(time.Second)},
			SampleCache:            config.SampleCacheConfig{KeptSize: 10000, DroppedSize: 100000, SizeCheckInterval: config.Duration(time.Second), WorkerCount: uint(o.workers)},
			StressRelief:           config.StressReliefConfig{Mode: o.stressMode, ActivationLevel: 80, DeactivationLevel: 50, SamplingRate: rateOr2(o.stressRate), MinimumActivationDuration: config.Duration(500 * time.Millisecond)},
			GetSamplerTypeVal:      o.sampler,
			GetSamplerTypeName:     o.samplerName,
			TraceIdFieldNames:      []string{"trace.trace_id", "traceId"},
			ParentIdFieldNames:     []string{"trace.parent_id", "parentId"},
			AddRuleReasonToTrace:   true,
			GetGeneralConfigVal:    config.GeneralConfig{ConfigReloadInterval: config.Duration(us(p.Get("cfg_reload_us", 300_000_000)))}, // non-zero: the watcher suppresses re-publishing (MockConfig.Reload always reports a change)
		}
		w.nodes = append(w.nodes, n)
	}
	// network routes
	w.net.Handle(hnyHost, w.honeycomb)
	for _, n := range w.nodes {
		n := n
		u, _ := url.Parse(n.addr)
		w.net.Handle(u.Host, func(rec *NetRec, req *http.Request) *SimResp { return n.servePeer(rec, req) })
	}
	return w
}

func (n *bNode) startNode() error {
	w := n.w
	n.tr = NewSimTracer(n.name, n.clk)
	n.done = make(chan struct{})
	c := &simConfig{n.cfg}
	var peers peer.Peers
	if n.cfg.PeerManagementType == "redis" {
		peers = &peer.RedisPubsubPeers{Done: n.done}
	} else {
		peers = &peer.FilePeers{Done: n.done}
	}
	pubsubber := w.bus.Endpoint(n.name)
	upT, peerT := w.transportFor(n.name), w.transportFor(n.name)
	tc := n.cfg.GetTracesConfig()
	n.upTx = transmit.NewDirectTransmission(types.TransmitTypeUpstream, upT, int(tc.GetMaxBatchSize()), tc.GetBatchTimeout(), 30*time.Second, true, nil)
	n.peerTx = transmit.NewDirectTransmission(types.TransmitTypePeer, peerT, int(tc.GetMaxBatchSize()), tc.GetBatchTimeout(), 10*time.Second, n.cfg.GetCompressPeerCommunication(), nil)
	// the two transmissions create identical tickers from identical goroutines:
	// give each its own clock so that every ticker has a stable identity
	upClk, peerClk := NewSimClock(n.name+"/uptx"), NewSimClock(n.name+"/peertx")
	w.drv.Clocks = append(w.drv.Clocks, upClk, peerClk)
	n.upTx.Clock, n.peerTx.Clock = upClk, peerClk
	n.coll = &collect.InMemCollector{}
	n.mm = metrics.NewMultiMetrics()
	n.shard = sharder.GetSharderImplementation(c)
	n.sr = &collect.StressRelief{Done: n.done}
	n.hl = &health.Health{}
	n.app = &app.App{Version: "verif"}
	var g inject.Graph
	n.objects = []*inject.Object{
		{Value: config.Config(c)},
		{Value: peers},
		{Value: pubsubber},
		{Value: logger.Logger(&logger.NullLogger{})},
		{Value: upT, Name: "upstreamTransport"},
		{Value: peerT, Name: "peerTransport"},
		{Value: n.upTx, Name: "upstreamTransmission"},
		{Value: n.peerTx, Name: "peerTransmission"},
		{Value: n.shard},
		{Value: n.coll},
		{Value: metrics.MetricsBackend(&metrics.NullMetrics{}), Name: "promMetrics"},
		{Value: metrics.MetricsBackend(&metrics.NullMetrics{}), Name: "otelMetrics"},
		{Value: n.tracerFor(), Name: "tracer"},
		{Value: clockwork.Clock(n.clk)},
		{Value: n.mm, Name: "metrics"},
		{Value: "verif", Name: "version"},
		{Value: &sample.SamplerFactory{}},
		{Value: n.sr, Name: "stressRelief"},
		{Value: n.hl},
		{Value: &configwatcher.ConfigWatcher{}},
		{Value: n.app},
		{Value: fmt.Sprintf("%08x", uint32(H(w.p.Seed, "inst", n.idx))), Name: "instanceID"},
	}
	if err := g.Provide(n.objects...); err != nil {
		return fmt.Errorf("provide: %w", err)
	}
	if err := g.Populate(); err != nil {
		return fmt.Errorf("populate: %w", err)
	}
	n.objects = g.Objects()
	// inject.Graph.Objects shuffles its answer with the global math/rand ("to
	// prevent callers from relying on ordering"), and startstop starts and stops
	// the objects of one dependency level in slice order: which of the two
	// transmissions is stopped first differs from process to process in a real
	// refinery. Here that order is the plan's: sorted by name and type, then
	// permuted by the seed.
	sort.SliceStable(n.objects, func(i, j int) bool {
		a, b := fmt.Sprint(n.objects[i]), fmt.Sprint(n.objects[j])
		ha, hb := H(w.p.Seed, "object-order", a), H(w.p.Seed, "object-order", b)
		if ha != hb {
			return ha < hb
		}
		return a < b
	})
	collect.SimHeapAlloc = simHeapHook
	collect.SimOrderTraces = tieOrder(w.p.Seed)
	heapNodes.Store(n.coll, n)
	if err := startstop.Start(n.objects, nullStartStopLogger{}); err != nil {
		return fmt.Errorf("start: %w", err)
	}
	// goroutines started so far draw their start-up jitter from the global
	// math/rand (config watcher); let them do so before the next one starts,
	// so that the order of draws is the same in every execution
	w.drv.Settle()
	if err := peers.Ready(); err != nil {
		return err
	}
	w.drv.Settle()
	n.running = true
	return nil
}

func (n *bNode) isUp() bool { return !n.down.Load() }

// admit registers a handler in progress unless the listeners have closed.
func (n *bNode) admit() bool {
	n.admitMu.Lock()
	defer n.admitMu.Unlock()
	if n.down.Load() {
		return false
	}
	n.inflight.Add(1)
	return true
}

// noteBuffered records which traces sit in the collector's buffer (or whether
// spans sit in its queues) right now; used to tell where a span lost at
// shutdown was when the shutdown happened.
func (n *bNode) noteBuffered() {
	n.w.mu.Lock()
	defer n.w.mu.Unlock()
	if n.w.bufferedAtStop == nil {
		n.w.bufferedAtStop = map[string]bool{}
	}
	for wk := 0; wk < n.coll.VerifWorkers(); wk++ {
		for _, b := range n.coll.VerifBuffered(wk, time.Second) {
			n.w.bufferedAtStop[b.TraceID] = true
		}
		if a, b := n.coll.VerifQueueLens(wk); a+b > 0 {
			n.w.queuedAtStop = true
		}
	}
}

// tracerFor: the SimTracer takes a lock on every call, which would order
// refinery's goroutines in a way the real program does not; the race runs use
// the no-op tracer the production default uses.
func (n *bNode) tracerFor() trace.Tracer {
	if n.w.stateless {
		return trace.Tracer(noop.Tracer{})
	}
	return trace.Tracer(n.tr)
}

var heapNodes sync.Map // *collect.InMemCollector -> *bNode

func simHeapHook(i *collect.InMemCollector, real uint64) uint64 {
	if v, ok := heapNodes.Load(i); ok {
		n := v.(*bNode)
		if once := n.heapOnce.Swap(0); once != 0 {
			return once
		}
		return n.heap
	}
	return 0
}

// shutdown reproduces main's sequence: close done, wait 2 x BatchTimeout, stop everything.
func (n *bNode) shutdown() {
	if !n.running || n.stopping {
		return
	}
	n.stopping = true
	close(n.done)
	time.Sleep(2 * n.cfg.GetTracesConfig().GetBatchTimeout())
	// startstop stops the routers first (the listeners close): from here on
	// the node is unreachable for clients and peers
	n.running = false
	n.admitMu.Lock()
	n.down.Store(true)
	n.admitMu.Unlock()
	n.inflight.Wait() // what http.Server.Shutdown does for requests in progress
	if !n.w.stateless {
		n.noteBuffered()
	}
	func() {
		// a panic while the components are being stopped would end the process on
		// the spot, with everything not yet flushed
		defer func() {
			if r := recover(); r != nil {
				site := "shutdown"
				for _, line := range strings.Split(string(debug.Stack()), "\n") {
					if strings.HasPrefix(line, "github.com/honeycombio/refinery/") && !strings.Contains(line, "/verifsim.") {
						site = strings.TrimPrefix(line[:strings.LastIndex(line, "(")], "github.com/honeycombio/refinery/")
						break
					}
				}
				n.w.out.Violate("C36", "shutdown_panicked", site, "node %s: stopping the components panicked: %v", n.name, r)
				n.w.crashed = true
			}
		}()
		startstop.Stop(n.objects, nullStartStopLogger{})
	}()
	heapNodes.Delete(n.coll) // the registry must not keep finished nodes (and all they hold) alive
}

// ---------------------------------------------------------------------------
// the fake Honeycomb API

func decodeBatch(body []byte) ([]map[string]any, error) {
	var items []map[string]any
	if err := msgpack.Unmarshal(body, &items); err != nil {
		return nil, err
	}
	return items, nil
}

func (w *worldB) honeycomb(rec *NetRec, req *http.Request) (resp *SimResp) {
	from := req.Header.Get("X-Sim-From")
	if stepLog {
		defer func() {
			w.out.Logf("HNY at=%v from=%s %s -> %d", rec.At, from, rec.Path, resp.Status)
		}()
	}
	switch {
	case strings.HasPrefix(rec.Path, "/1/auth") && w.stateless:
		// race runs: answers after a while (a handler stays in progress meanwhile)
		b, _ := json.Marshal(map[string]any{"id": "keyid1", "team": map[string]string{"slug": "t"}, "environment": map[string]string{"slug": "env1", "name": "env1"}, "api_key_access": map[string]bool{"events": true}})
		return &SimResp{Status: 200, Header: http.Header{"Content-Type": {"application/json"}}, Body: b, Delay: 120 * time.Millisecond}
	case strings.HasPrefix(rec.Path, "/1/auth"):
		mode := "ok"
		if !w.stateless {
			w.mu.Lock()
			mode = w.authMode
			w.mu.Unlock()
		}
		if mode == "flaky" {
			// every second lookup fails, whoever asks
			w.mu.Lock()
			w.authCalls++
			odd := w.authCalls%2 == 1
			w.mu.Unlock()
			if odd {
				mode = "fail"
			}
		}
		switch mode {
		case "fail":
			w.out.Fault("auth_failure")
			return &SimResp{Status: 500, Body: []byte(`{"error":"boom"}`)}
		case "unauthorized":
			w.out.Fault("auth_unauthorized")
			return &SimResp{Status: 401, Body: []byte(`{"error":"no"}`)}
		case "timeout":
			w.out.Fault("auth_timeout")
			return &SimResp{Hang: true}
		case "slow":
			// answers, but only after a while: the request that asked is in progress
			// (holding what it has read) while other requests come and go
			w.out.Fault("auth_slow")
			b, _ := json.Marshal(map[string]any{"id": "keyid1", "team": map[string]string{"slug": "t"}, "environment": map[string]string{"slug": "env1", "name": "env1"}, "api_key_access": map[string]bool{"events": true}})
			return &SimResp{Status: 200, Header: http.Header{"Content-Type": {"application/json"}}, Body: b, Delay: 150 * time.Millisecond}
		}
		b, _ := json.Marshal(map[string]any{"id": "keyid1", "team": map[string]string{"slug": "t"}, "environment": map[string]string{"slug": "env1", "name": "env1"}, "api_key_access": map[string]bool{"events": true}})
		return &SimResp{Status: 200, Header: http.Header{"Content-Type": {"application/json"}}, Body: b}
	case strings.HasPrefix(rec.Path, "/1/batch/") && w.stateless:
		items, err := decodeBatch(rec.Body)
		if err != nil {
			return &SimResp{Status: 400}
		}
		var resp []map[string]int
		for range items {
			resp = append(resp, map[string]int{"status": 202})
		}
		b, _ := json.Marshal(resp)
		return &SimResp{Status: 200, Header: http.Header{"Content-Type": {"application/json"}}, Body: b}
	case strings.HasPrefix(rec.Path, "/1/batch/"):
		items, err := decodeBatch(rec.Body)
		if err != nil {
			w.out.Violate("C26", "request_body_not_decodable", "transmit.DirectTransmission", "batch from %s: %v", from, err)
			return &SimResp{Status: 400}
		}
		ds, _ := url.PathUnescape(strings.TrimPrefix(rec.Path, "/1/batch/"))
		var resp []map[string]int
		w.mu.Lock()
		if w.busyLeft > 0 && rec.At >= w.busyFrom {
			key := rec.Path + "\x00" + string(rec.RawBody)
			if w.busySeen == nil {
				w.busySeen = map[string]bool{}
			}
			if !w.busySeen[key] {
				w.busySeen[key] = true
				w.busyLeft--
				w.mu.Unlock()
				w.out.Fault(fmt.Sprintf("honeycomb_busy_%d", w.busyStatus))
				if w.stopAt > 0 && rec.At >= w.stopAt {
					w.out.Probe("flush_met_busy_honeycomb")
				}
				return &SimResp{Status: w.busyStatus, Header: http.Header{"Retry-After": {fmt.Sprint(w.busyRetryAfter)}}, Body: []byte(`{"error":"busy"}`)}
			}
		}
		for _, it := range items {
			d, _ := it["data"].(map[string]any)
			mk, _ := d["mk"].(string)
			sr, _ := i64(toNum(it["samplerate"]))
			ts, _ := it["time"].(time.Time)
			w.hny = append(w.hny, &hnyEvent{at: rec.At, step: rec.Step, from: from, host: rec.Host, path: rec.Path, dataset: ds, apiKey: rec.Header.Get("X-Honeycomb-Team"), rate: sr, ts: ts, data: d, marker: mk})
			resp = append(resp, map[string]int{"status": 202})
		}
		w.mu.Unlock()
		b, _ := json.Marshal(resp)
		return &SimResp{Status: 200, Header: http.Header{"Content-Type": {"application/json"}}, Body: b}
	}
	return &SimResp{Status: 404, Body: []byte(`{"error":"not found"}`)}
}

// servePeer delivers a request arriving on a node's peer listener to its real peer router.
func (n *bNode) servePeer(rec *NetRec, req *http.Request) *SimResp {
	w := n.w
	from := req.Header.Get("X-Sim-From")
	if from == n.name && !w.stateless {
		w.mu.Lock()
		w.selfSend++
		w.mu.Unlock()
	}
	if !n.isUp() {
		if !w.stateless {
			w.out.Fault("peer_unreachable")
		}
		return &SimResp{ConnErr: true}
	}
	// what is in it (for the oracles)
	if strings.HasPrefix(rec.Path, "/1/batch/") && !w.stateless {
		if items, err := decodeBatch(rec.Body); err == nil {
			ds, _ := url.PathUnescape(strings.TrimPrefix(rec.Path, "/1/batch/"))
			w.mu.Lock()
			for _, it := range items {
				d, _ := it["data"].(map[string]any)
				mk, _ := d["mk"].(string)
				sr, _ := i64(toNum(it["samplerate"]))
				ts, _ := it["time"].(time.Time)
				pr, _ := d["meta.refinery.probe"].(bool)
				w.peerLog = append(w.peerLog, &peerDelivery{at: rec.At, from: from, to: n.name, marker: mk, data: d, rate: sr, apiKey: rec.Header.Get("X-Honeycomb-Team"), ds: ds, ts: ts, probe: pr})
			}
			w.mu.Unlock()
		}
	}
	hreq, _ := http.NewRequest(req.Method, "http://"+req.URL.Host+req.URL.RequestURI(), bytes.NewReader(rec.RawBody))
	hreq.Header = req.Header.Clone()
	hreq.Header.Del("X-Sim-From")
	hreq.RemoteAddr = from + ":1"
	rw := newRespRec()
	if !n.admit() {
		if !w.stateless {
			w.out.Fault("peer_unreachable")
		}
		return &SimResp{ConnErr: true}
	}
	if !n.isUp() {
		n.inflight.Done()
		return &SimResp{ConnErr: true}
	}
	n.app.PeerRouter.VerifHandler().ServeHTTP(rw, hreq)
	n.inflight.Done()
	return &SimResp{Status: rw.status(), Header: rw.hdr, Body: rw.body.Bytes()}
}

// ---------------------------------------------------------------------------
// response recorder (records every WriteHeader / Write)

type respRec struct {
	hdr      http.Header
	statuses []int
	body     bytes.Buffer
	wrote    bool
}

func newRespRec() *respRec { return &respRec{hdr: http.Header{}} }

func (r *respRec) Header() http.Header { return r.hdr }
func (r *respRec) WriteHeader(code int) {
	r.statuses = append(r.statuses, code)
}
func (r *respRec) Write(b []byte) (int, error) {
	if len(r.statuses) == 0 {
		r.statuses = append(r.statuses, 200)
	}
	r.wrote = true
	return r.body.Write(b)
}
func (r *respRec) status() int {
	if len(r.statuses) == 0 {
		return 200
	}
	return r.statuses[0]
}

// ---------------------------------------------------------------------------
// simulated SDK clients

type bEvent struct {
	marker  string
	traceID string // "" = not part of a trace
	root    bool
	probe   bool
	invalid bool // empty event data
	rate    int
	ts      time.Time
	fields  map[string]any
}

type bRequest struct {
	id       int
	node     int
	peer     bool   // sent to the peer listener
	endpoint string // batch | event
	enc      string // json | msgpack
	apiKey   string
	dataset  string
	events   []*bEvent
	bodyErr  bool   // the client disconnects while the body is read
	garbage  bool   // malformed body
	compress string // "" | zstd | zstd_bad (compressed body that does not decode) | gzip
	// results
	resp     *respRec
	finished bool
	sentAt   time.Duration
}

// the clients' zstd encoder: created (and used once) outside any bubble; EncodeAll
// with concurrency 1 starts no goroutine
var simZstdEnc = func() *zstd.Encoder {
	e, err := zstd.NewWriter(nil, zstd.WithEncoderConcurrency(1))
	if err != nil {
		panic(err)
	}
	e.EncodeAll([]byte("warm"), nil)
	return e
}()

type errReader struct{ r io.Reader }

func (e *errReader) Read(p []byte) (int, error) {
	n, err := e.r.Read(p)
	if err == io.EOF {
		return n, fmt.Errorf("simulated client disconnect")
	}
	return n, err
}
func (e *errReader) Close() error { return nil }

func (r *bRequest) build() *http.Request {
	var body []byte
	ctype := "application/json"
	switch r.endpoint {
	case "batch":
		var items []map[string]any
		for _, ev := range r.events {
			it := map[string]any{"samplerate": ev.rate, "time": ev.ts.Format(time.RFC3339Nano)}
			if ev.invalid {
				it["data"] = map[string]any{}
			} else {
				it["data"] = ev.wireFields()
			}
			if r.enc == "msgpack" {
				it["time"] = ev.ts
			}
			items = append(items, it)
		}
		if r.enc == "msgpack" {
			body, _ = msgpack.Marshal(items)
			ctype = "application/msgpack"
		} else {
			body, _ = json.Marshal(items)
		}
	case "event":
		ev := r.events[0]
		if r.enc == "msgpack" {
			body, _ = msgpack.Marshal(ev.wireFields())
			ctype = "application/msgpack"
		} else {
			body, _ = json.Marshal(ev.wireFields())
		}
	}
	if r.garbage {
		body = []byte("{[ this is not a body")
	}
	path := "/1/batch/"
	if r.endpoint == "event" {
		path = "/1/events/"
	}
	cenc := ""
	switch r.compress {
	case "zstd":
		body, cenc = simZstdEnc.EncodeAll(body, nil), "zstd"
	case "zstd_bad":
		body, cenc = simZstdEnc.EncodeAll(body, nil), "zstd"
		body = append(body[:len(body)/2], 0xff, 0x00, 0xff) // cut short and spoilt
	case "gzip":
		var zb bytes.Buffer
		zw := gzip.NewWriter(&zb)
		zw.Write(body)
		zw.Close()
		body, cenc = zb.Bytes(), "gzip"
	}
	var rd io.ReadCloser = io.NopCloser(bytes.NewReader(body))
	if r.bodyErr {
		rd = &errReader{r: bytes.NewReader(body[:len(body)/2])}
	}
	req, _ := http.NewRequest("POST", "http://refinery.sim"+path+r.dataset, rd)
	req.Header.Set("Content-Type", ctype)
	if cenc != "" {
		req.Header.Set("Content-Encoding", cenc)
	}
	req.Header.Set("X-Honeycomb-Team", r.apiKey)
	req.Header.Set("User-Agent", "sim-sdk/1")
	if r.endpoint == "event" {
		ev := r.events[0]
		req.Header.Set("X-Honeycomb-Samplerate", fmt.Sprint(ev.rate))
		req.Header.Set("X-Honeycomb-Event-Time", ev.ts.Format(time.RFC3339Nano))
	}
	req.RemoteAddr = "client:1"
	return req
}

func (e *bEvent) wireFields() map[string]any {
	m := map[string]any{"mk": e.marker, "name": "op", "dur": 12.5, "n": 7}
	for k, v := range e.fields {
		m[k] = v
	}
	if e.traceID != "" {
		m["trace.trace_id"] = e.traceID
		m["trace.span_id"] = "s-" + e.marker
		if !e.root {
			m["trace.parent_id"] = "p-" + e.traceID[:4]
		}
	}
	if e.probe {
		m["meta.refinery.probe"] = true
	}
	return m
}

// send runs the request against the node's real router, as its own task.
func (w *worldB) send(r *bRequest) {
	n := w.nodes[r.node]
	r.sentAt = w.drv.Elapsed()
	req := r.build()
	r.resp = newRespRec()
	if !n.isUp() {
		// connection refused
		r.resp.WriteHeader(503)
		r.finished = true
		return
	}
	h := n.app.IncomingRouter.VerifHandler()
	if r.peer {
		h = n.app.PeerRouter.VerifHandler()
	}
	if !n.admit() {
		r.resp.WriteHeader(503)
		r.finished = true
		return
	}
	go func() {
		h.ServeHTTP(r.resp, req)
		n.inflight.Done()
		if w.stateless {
			return
		}
		w.mu.Lock()
		r.finished = true
		w.mu.Unlock()
	}()
}

func rateOr2(r uint64) uint64 {
	if r == 0 {
		return 2
	}
	return r
}

// apiSuffix: Network.HoneycombAPI is written with a trailing slash in some
// plans (legal; the documented default has none).
func apiSuffix(p *Plan) string {
	if p.Get("api_slash", 0) == 1 {
		return "/"
	}
	return ""
}
