//go:build verif

package verifsim

import (
	"context"
	"fmt"
	"strings"
	"sync"
	"testing"
	"time"

	"github.com/honeycombio/refinery/config"
	"github.com/honeycombio/refinery/internal/configwatcher"
	"github.com/honeycombio/refinery/internal/health"
	"github.com/honeycombio/refinery/logger"
	"github.com/honeycombio/refinery/metrics"
	"github.com/honeycombio/refinery/pubsub"
	"github.com/jonboulle/clockwork"
)

// C35, lifecycle sub-world: components that start goroutines of their own
// (config watcher, health, local pubsub) are started, used for a while and
// stopped, with doubles that do as little synchronisation of their own as they
// can. In the full-node runs of World B the harness and MockConfig take so many
// locks between a node's start and its shutdown that nearly every pair of
// accesses is ordered by some chain of unlock/lock pairs that has nothing to do
// with refinery; the race detector judges happens-before, so there it stays
// silent about state a component shares between its own goroutine and Stop.
// Here nothing but the component's own synchronisation orders the two.

func genLifecycle(r *Rng, tier string, p *Plan) {
	p.N["lifecycle"] = 1
	// General.ConfigReloadInterval (0 switches the periodic reload off)
	p.N["cfg_reload_us"] = PickOf(r, int64(0), 200_000, 1_000_000, 60_000_000)
	p.N["stop_after_us"] = PickOf(r, int64(1), 1000, 300_000, 2_500_000, 3_200_000, 6_000_000)
	n := r.Range(0, 4)
	for i := 0; i < n; i++ {
		p.Add(Op{K: PickOf(r, "publish", "changed", "report", "probe"), At: r.I64n(p.N["stop_after_us"] + 1), N: int64(i)})
	}
	p.SortOps()
}

// lcConfig: a configuration that never changes. Only what the started
// components ask for is implemented; the values are immutable, the listeners'
// list is the one thing guarded (the watcher starts its goroutine before it
// registers its listener).
type lcConfig struct {
	config.Config
	general config.GeneralConfig
	mu      sync.Mutex
	cbs     []config.ConfigReloadCallback
}

func (c *lcConfig) GetGeneralConfig() config.GeneralConfig { return c.general }
func (c *lcConfig) GetOpAMPConfig() config.OpAMPConfig     { return config.OpAMPConfig{} }
func (c *lcConfig) RegisterReloadCallback(cb config.ConfigReloadCallback) {
	c.mu.Lock()
	c.cbs = append(c.cbs, cb)
	c.mu.Unlock()
}
func (c *lcConfig) Reload(opts ...config.ReloadedConfigDataOption) error { return nil }
func (c *lcConfig) changed() {
	c.mu.Lock()
	cbs := append([]config.ConfigReloadCallback(nil), c.cbs...)
	c.mu.Unlock()
	for _, cb := range cbs {
		cb("h1", "h2")
	}
}

func runLifecycle(t *testing.T, p *Plan) *Outcome {
	out := NewOutcome()
	newRaceReports()
	pt := InBubble(t, func() {
		cfg := &lcConfig{general: config.GeneralConfig{ConfigReloadInterval: config.Duration(us(p.N["cfg_reload_us"]))}}
		ps := &pubsub.LocalPubSub{Metrics: &metrics.NullMetrics{}}
		if err := ps.Start(); err != nil {
			out.Harness = err.Error()
			return
		}
		hl := &health.Health{Clock: clockwork.NewRealClock(), Metrics: &metrics.NullMetrics{}, Logger: &logger.NullLogger{}}
		if err := hl.Start(); err != nil {
			out.Harness = err.Error()
			return
		}
		hl.Register("sub", 2*time.Second)
		hl.Ready("sub", true) // reports once, at start-up; whether it goes on reporting is the plan's choice
		cw := &configwatcher.ConfigWatcher{Config: cfg, PubSub: ps, Logger: &logger.NullLogger{}}
		if err := cw.Start(); err != nil {
			out.Harness = err.Error()
			return
		}
		out.Probe("race_run_component_lifecycle")
		// what the /alive and /ready handlers of the two routers, the gRPC health
		// services and the watchdog do, each on its own goroutine
		probes := func() {
			go hl.IsAlive()
			go hl.IsAlive()
			go hl.IsReady()
		}
		var at int64
		for _, op := range p.Ops {
			if op.At > at {
				time.Sleep(us(op.At - at))
				at = op.At
			}
			switch op.K {
			case "publish":
				// another node says its configuration changed
				msg := time.Now().Format(time.RFC3339)
				go ps.Publish(context.Background(), ps.FormatTopic(configwatcher.ConfigPubsubTopic), msg)
			case "changed":
				go cfg.changed()
			case "report":
				go hl.Ready("sub", true)
			case "probe":
				probes()
			}
		}
		if d := p.N["stop_after_us"] - at; d > 0 {
			time.Sleep(us(d))
		}
		// liveness probes keep coming until the end (by now the subsystem may have
		// been silent for longer than its timeout)
		probes()
		time.Sleep(time.Microsecond)
		// shutdown, in the order the application stops them
		cw.Stop()
		hl.Stop()
		ps.Stop()
		time.Sleep(time.Second)
	})
	for _, rep := range newRaceReports() {
		site, harnessOnly := raceSite(rep)
		if harnessOnly {
			if out.Harness == "" {
				out.Harness = "race report with no refinery frame (harness race?):\n" + rep
			}
			continue
		}
		out.Violate("C35", "data_race", site, "the race detector reported:\n%s", strings.TrimSpace(rep))
	}
	if pt != "" && out.Harness == "" && !strings.Contains(pt, "blocked goroutines remain") {
		out.Harness = "panic/deadlock in bubble: " + pt
	}
	_ = fmt.Sprint
	return out
}
