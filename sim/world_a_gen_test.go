//go:build verif

package verifsim

import (
	"sort"
	"testing"
)

// Plan generation for World A. Swarm style: every run picks its own worker
// count, timing knobs, sampler, decoration options, enabled fault kinds.

type aProfile struct {
	dryRun      float64 // probability that dry run is on
	ejection    float64 // probability that memory pressure is enabled
	reloads     float64 // probability that reloads are enabled
	decor       bool    // reloads toggle decoration options
	smallKept   float64 // probability of a kept capacity small enough to age decisions out
	parkSender  float64
	parkWorker  float64
	spanLimit   float64
	burst       float64 // traces whose spans all arrive inside one tick interval
	reasonSeq   float64 // plans that are a sequence of decisions with recurring rule reasons
	bigRates    bool
	zeroDefault float64 // probability of zero (documented default) SendDelay / TraceTimeout
	dryToggle   bool
}

var aProfiles = map[string]aProfile{
	"C01": {dryRun: 0.05, ejection: 0.35, reloads: 0.4, smallKept: 0.25, parkSender: 0.3, parkWorker: 0.2, spanLimit: 0.3},
	"C02": {dryRun: 0.1, ejection: 0.3, reloads: 0.3, smallKept: 0.15, parkSender: 0.3, parkWorker: 0.3, spanLimit: 0.3},
	"C03": {dryRun: 0.0, ejection: 0.15, reloads: 0.0, parkSender: 0.1, parkWorker: 0.2, spanLimit: 0.5, zeroDefault: 0.12, burst: 0.15},
	"C04": {dryRun: 0.0, ejection: 0.2, reloads: 0.2, parkSender: 0.2, spanLimit: 0.2, bigRates: true},
	"C05": {dryRun: 1.0, ejection: 0.25, reloads: 0.3, parkSender: 0.3, parkWorker: 0.1, spanLimit: 0.3, bigRates: true, dryToggle: true},
	"C06": {dryRun: 0.1, ejection: 0.2, reloads: 0.8, decor: true, parkSender: 0.4, spanLimit: 0.2, reasonSeq: 0.15},
	"C07": {dryRun: 0.05, ejection: 1.0, reloads: 0.1, parkSender: 0.2, spanLimit: 0.2},
}

// genFullQueue: the outgoing queue (shrunk to a few traces) is exactly full
// behind a stalled sender when the memory limit is exceeded, so the ejected
// traces' hand-over meets a full queue.
func genFullQueue(r *Rng, p *Plan) {
	c := PickOf(r, 1, 2, 4)
	p.N["out_queue_cap"] = int64(c)
	p.N["workers"] = 1
	p.N["send_ticker_us"] = 50_000
	p.N["trace_timeout_us"] = 5_000_000
	p.N["send_delay_us"] = 100_000
	p.N["max_expired"] = 0
	p.N["sampler"] = PickOf(r, int64(0), 0, 1, 3)
	p.N["kept_size"] = 10000
	p.N["max_alloc"] = 100_000
	p.N["host_meta"], p.N["rule_reason"], p.N["attrs"] = 0, 0, 0
	p.Add(Op{K: "park", At: 0, S: "sendTrace"})
	// c+1 traces with a root: decided soon; the sender takes the first and
	// stalls, the others fill the queue
	for k := 0; k <= c; k++ {
		p.Add(Op{K: "span", At: int64(1000 + 10_000*k), I: int64(k), N: skRoot, M: 1})
	}
	// traces without a root: still buffered when the memory limit is exceeded
	m := r.Range(1, 5)
	for j := 0; j < m; j++ {
		p.Add(Op{K: "span", At: int64(300_000 + 20_000*j), I: int64(100 + j), N: skChild, M: 1 | int64(r.Range(0, 6)*97)<<32})
	}
	p.Add(Op{K: "heap", At: 600_001, N: 100_000 + PickOf(r, int64(1), 200, 1_000_000)})
	p.Add(Op{K: "release", At: int64(PickOf(r, 900_000, 1_500_000)), S: "sendTrace"})
	p.SortOps()
}

// genReasonSeq: one worker decides a sequence of traces under a rules-based
// sampler whose rules give different reasons, the reasons recurring in a random
// order; afterwards a late span arrives for every trace and must carry the
// reason of its own trace's decision.
func genReasonSeq(r *Rng, tier string, p *Plan) {
	p.N["workers"] = 1
	p.N["send_ticker_us"] = 10_000
	p.N["trace_timeout_us"] = 300_000
	p.N["send_delay_us"] = 50_000
	p.N["max_expired"] = 0
	p.N["sampler"] = PickOf(r, int64(12), 12, 6, 11)
	p.N["kept_size"] = 10000
	p.N["host_meta"], p.N["rule_reason"], p.N["attrs"] = 0, 1, 0
	n := r.Range(4, 12)
	if tier == "thorough" {
		n = r.Range(4, 30)
	}
	// two or three of the four f1 values, so that reasons recur
	l0 := r.Intn(4)
	letters := []int{l0, (l0 + 1 + r.Intn(3)) % 4, r.Intn(4)}
	at := int64(1000)
	for ti := 0; ti < n; ti++ {
		l := letters[r.Intn(len(letters))]
		bit := int64((l - ti%4 + 4) % 4)
		p.Add(Op{K: "span", At: at, I: int64(ti), N: skRoot | bit<<8, M: 1})
		at += PickOf(r, int64(70_000), 100_000, 130_000)
	}
	at += 500_000
	for ti := 0; ti < n; ti++ {
		if r.Bool(0.8) {
			p.Add(Op{K: "span", At: at, I: int64(ti), N: int64(skChild), M: 1})
			at += 5_000
		}
	}
	p.SortOps()
}

func genA(check string) func(r *Rng, tier string, p *Plan) {
	return func(r *Rng, tier string, p *Plan) {
		pr := aProfiles[check]
		if (check == "C07" || check == "C02") && r.Bool(0.08) {
			genFullQueue(r, p)
			return
		}
		if pr.reasonSeq > 0 && r.Bool(pr.reasonSeq) {
			genReasonSeq(r, tier, p)
			return
		}
		thorough := tier == "thorough"
		workers := PickOf(r, 1, 1, 2, 2, 3, 4)
		if thorough && r.Bool(0.2) {
			workers = PickOf(r, 5, 6, 8)
		}
		p.N["workers"] = int64(workers)
		ticker := PickOf(r, int64(10_000), 20_000, 50_000, 100_000)
		p.N["send_ticker_us"] = ticker
		tt := PickOf(r, int64(300_000), 500_000, 1_000_000, 2_000_000)
		sd := PickOf(r, int64(50_000), 100_000, 200_000, 500_000)
		if r.Bool(pr.zeroDefault) {
			if r.Bool(0.5) {
				sd = 0 // documented default 2s applies
			} else {
				tt = 0 // documented default 60s applies
			}
		}
		p.N["trace_timeout_us"] = tt
		p.N["send_delay_us"] = sd
		if r.Bool(pr.spanLimit) {
			p.N["span_limit"] = int64(r.Range(2, 5))
		}
		p.N["max_expired"] = PickOf(r, int64(0), 0, 1, 2, 3)
		p.N["sampler"] = int64(r.Intn(nSamplerPresets))
		if check == "C03" {
			// every decision is visible either way (recording span); prefer variety
			p.N["sampler"] = PickOf(r, int64(0), 0, 1, 3, 6)
		}
		if r.Bool(pr.dryRun) {
			p.N["dry_run"] = 1
		}
		p.N["host_meta"] = int64(r.Intn(2))
		p.N["rule_reason"] = int64(r.Intn(2))
		switch r.Intn(3) {
		case 1:
			p.N["span_count"] = 1
		case 2:
			p.N["counts"] = 1
			p.N["span_count"] = int64(r.Intn(2))
		}
		p.N["attrs"] = int64(r.Intn(3))
		nTraces := r.Range(2, 10)
		if thorough {
			nTraces = r.Range(2, 30)
		}
		p.N["kept_size"] = 10000
		if r.Bool(pr.smallKept) {
			p.N["kept_size"] = int64(workers * r.Range(1, 3))
		}
		eject := r.Bool(pr.ejection)
		if eject {
			p.N["max_alloc"] = 100_000
		}
		if r.Bool(pr.parkWorker) && r.Bool(0.5) {
			p.N["in_queue"] = int64(workers * r.Range(1, 3))
		}
		effTT, effSD := tt, sd
		if effTT == 0 {
			effTT = 60_000_000
		}
		if effSD == 0 {
			effSD = 2_000_000
		}
		horizon := int64(1_500_000)
		if tt == 0 {
			horizon = 500_000
		}
		snap := func(t int64) int64 {
			// bias instants onto the tick grid and its neighbours
			switch r.Intn(6) {
			case 0:
				return (t / ticker) * ticker
			case 1:
				return (t/ticker)*ticker + 1
			case 2:
				if t >= ticker {
					return (t/ticker)*ticker - 1
				}
			}
			return (t / 1000) * 1000
		}
		clientRates := []int64{0, 0, 1, 2, 7}
		if pr.bigRates {
			clientRates = append(clientRates, 1<<31-1, 1000003, 65536)
		}
		var lastT int64
		for ti := 0; ti < nTraces; ti++ {
			t0 := snap(r.I64n(horizon))
			nsp := r.Range(1, 6)
			hasRoot := r.Bool(0.7)
			rootPos := r.Intn(nsp)
			client := PickOf(r, clientRates...)
			burst := pr.burst > 0 && r.Bool(pr.burst)
			if burst {
				// all of the trace's spans inside one tick interval, more of them than
				// any span limit: the limit is crossed, and spans (the root among them)
				// keep arriving before the tick that decides the trace
				t0 = (t0/ticker)*ticker + 1
				nsp = r.Range(3, 9)
				rootPos = r.Intn(nsp)
			}
			var times []int64
			for s := 0; s < nsp; s++ {
				var dt int64
				switch r.Intn(5) {
				case 0:
					dt = 0
				case 1:
					dt = r.I64n(effSD + 1)
				case 2:
					dt = r.I64n(min64(effTT, 3_000_000) + 1)
				case 3:
					// around a deadline
					dt = PickOf(r, min64(effTT, 3_000_000), effSD) + PickOf(r, int64(-1), 0, 1, ticker, -ticker)
				default:
					dt = r.I64n(300_000)
				}
				if dt < 0 {
					dt = 0
				}
				if burst {
					times = append(times, t0+r.I64n(ticker-2))
					continue
				}
				times = append(times, snap(t0+dt))
			}
			sort.Slice(times, func(i, j int) bool { return times[i] < times[j] })
			times[0] = t0
			for s := 0; s < nsp; s++ {
				kind := int64(skChild)
				if hasRoot && s == rootPos {
					kind = skRoot
				} else {
					kind = PickOf(r, int64(skChild), skChild, skChild, skEvent, skLink)
				}
				pad := int64(0)
				if eject || r.Bool(0.2) {
					pad = int64(r.Range(0, 6)) * 97
				}
				cr := client
				if r.Bool(0.15) {
					cr = PickOf(r, clientRates...)
				}
				p.Add(Op{K: "span", At: times[s], I: int64(ti), N: kind | int64(r.Intn(2))<<8, M: cr | pad<<32, B: r.Bool(0.25)})
				if times[s] > lastT {
					lastT = times[s]
				}
			}
			// late spans, well after any decision
			if r.Bool(0.5) {
				nl := r.Range(1, 3)
				for s := 0; s < nl; s++ {
					base := times[len(times)-1] + min64(effTT, 2_500_000) + effSD
					at := snap(base + PickOf(r, int64(0), ticker, 2*ticker, 500_000, 3_200_000, 4_000_000) + r.I64n(50_000))
					kind := PickOf(r, int64(skChild), skChild, skEvent, skLink)
					if !hasRoot && s == 0 && r.Bool(0.6) {
						kind = skRoot
					}
					p.Add(Op{K: "span", At: at, I: int64(ti), N: kind, M: client, B: r.Bool(0.25)})
					if at > lastT {
						lastT = at
					}
				}
			}
		}
		span := lastT + 1
		// memory pressure readings
		if eject {
			n := r.Range(1, 3)
			for i := 0; i < n; i++ {
				over := PickOf(r, int64(0), 1, 50, 200, 500, 1500, 1_000_000)
				p.Add(Op{K: "heap", At: snap(r.I64n(span)), N: 100_000 + over})
			}
			if r.Bool(0.3) {
				p.Add(Op{K: "heap", At: snap(r.I64n(span)), N: 99_999}) // just below the limit: nothing happens
			}
		}
		// reloads
		if r.Bool(pr.reloads) {
			n := r.Range(1, 4)
			for i := 0; i < n; i++ {
				at := snap(r.I64n(span))
				switch {
				case pr.decor || r.Bool(0.3):
					k := PickOf(r, "host_meta", "rule_reason", "span_count", "counts", "attrs")
					v := int64(r.Intn(2))
					if k == "attrs" {
						v = int64(r.Intn(3))
					}
					p.Add(Op{K: "reload", At: at, S: k, N: v})
				case r.Bool(0.5):
					p.Add(Op{K: "reload", At: at, S: "sampler", N: int64(r.Intn(nSamplerPresets))})
				case r.Bool(0.5):
					p.Add(Op{K: "reload", At: at, S: "kept_size", N: PickOf(r, int64(workers), int64(2*workers), 10000)})
				default:
					p.Add(Op{K: "reload", At: at, S: "noop"})
				}
			}
		}
		if pr.dryToggle && r.Bool(0.3) {
			// dry run is switched off and, later, back on (the configuration is then
			// byte for byte what it was); sometimes twice
			at := snap(r.I64n(span))
			for k := 0; k < PickOf(r, 1, 1, 2); k++ {
				p.Add(Op{K: "reload", At: at, S: "dry_run", N: 0})
				at += PickOf(r, ticker, 200_000, 700_000)
				p.Add(Op{K: "reload", At: at, S: "dry_run", N: 1})
				at += PickOf(r, ticker, 200_000, 700_000)
			}
		}
		// stalls
		if r.Bool(pr.parkSender) {
			a := snap(r.I64n(span))
			b := a + PickOf(r, ticker, 3*ticker, 400_000, 2_000_000)
			p.Add(Op{K: "park", At: a, S: "sendTrace"})
			p.Add(Op{K: "release", At: b, S: "sendTrace"})
			if (check == "C07" || check == "C02") && r.Bool(0.4) {
				// an outgoing queue of a few traces (the shipped one holds 100000): it
				// fills up behind the stalled sender
				p.N["out_queue_cap"] = int64(PickOf(r, 1, 2, 4))
			}
		}
		if pr.parkWorker > 0 && r.Bool(0.25) {
			// a worker stalls for a few tick periods in a gap of the traffic (no
			// operation of the plan falls into the stall): one send tick fires
			// meanwhile and waits in the ticker's channel; deadlines pass; the worker
			// then handles that tick late
			dur := PickOf(r, 2*ticker, 3*ticker, effTT+ticker)
			var cands []int64
			for _, op := range p.Ops {
				if op.K == "span" {
					cands = append(cands, op.At+1000)
				}
			}
			for tries := 0; tries < 8 && len(cands) > 0; tries++ {
				a := cands[r.Intn(len(cands))]
				free := true
				for _, op := range p.Ops {
					if op.At >= a-1000 && op.At <= a+dur+ticker && op.At != a-1000 {
						free = false
						break
					}
				}
				if free {
					p.N["late_tick"] = 1
					for wk := 0; wk < workers; wk++ {
						p.Add(Op{K: "park", At: a, S: "collect_worker/" + itoa(wk), M: 1})
						p.Add(Op{K: "release", At: a + dur, S: "collect_worker/" + itoa(wk)})
					}
					break
				}
			}
		} else if r.Bool(pr.parkWorker) {
			wk := r.Intn(workers)
			a := snap(r.I64n(span))
			b := a + PickOf(r, ticker, 3*ticker, 300_000)
			key := "collect_worker/" + itoa(wk)
			p.Add(Op{K: "park", At: a, S: key})
			p.Add(Op{K: "release", At: b, S: key})
		}
		p.SortOps()
	}
}

func min64(a, b int64) int64 {
	if a < b {
		return a
	}
	return b
}

func itoa(i int) string {
	if i == 0 {
		return "0"
	}
	s := ""
	for i > 0 {
		s = string(rune('0'+i%10)) + s
		i /= 10
	}
	return s
}

// simplifyA: world-specific shrinking beyond dropping ops.
func simplifyA(p *Plan) []*Plan {
	var out []*Plan
	set := func(k string, v int64) {
		if cur, ok := p.N[k]; ok && cur != v {
			q := p.Clone()
			q.N[k] = v
			out = append(out, q)
		}
	}
	set("workers", 1)
	set("dry_run", 0)
	set("host_meta", 0)
	set("rule_reason", 0)
	set("span_count", 0)
	set("counts", 0)
	set("attrs", 0)
	set("max_expired", 0)
	set("span_limit", 0)
	set("kept_size", 10000)
	set("max_alloc", 0)
	set("in_queue", 1000)
	set("sampler", 0)
	set("sampler", 1)
	// simplify individual spans: no padding, not from peer, client rate absent
	for i, op := range p.Ops {
		if op.K != "span" {
			continue
		}
		if op.M>>32 != 0 {
			q := p.Clone()
			q.Ops[i].M = op.M & 0xffffffff
			out = append(out, q)
		}
		if op.B {
			q := p.Clone()
			q.Ops[i].B = false
			out = append(out, q)
		}
		if op.M&0xffffffff != 0 {
			q := p.Clone()
			q.Ops[i].M = op.M &^ 0xffffffff
			out = append(out, q)
		}
	}
	return out
}

func init() {
	real := []string{"collect.InMemCollector", "collect.CollectorWorker", "collect/cache.DefaultInMemCache", "collect/cache.cuckooSentCache (+CuckooTraceChecker, KeptReasonsCache)", "sample.SamplerFactory and all samplers", "dynsampler-go", "types.Trace/Span/Payload", "internal/health.Health", "generics.SetWithTTL"}
	stub := []string{"transmit.Transmission (recording double)", "config (MockConfig, mutated + Reload())", "sharder (MockSharder)", "peers (MockPeers)", "StressRelief (MockStressReliever, never stressed)", "metrics (MockMetrics)", "clock (SimClock over synctest bubble)", "tracer (SimTracer)", "heap reading (simHeapAlloc hook)", "logger (NullLogger)"}
	own := map[string][]string{
		"C01": {"late_span", "kept_trace", "dropped_trace", "ejection_checked", "reload_sampler", "kept_lru_eviction"},
		"C02": {"late_span", "kept_trace", "dropped_trace", "span_refused_queue_full"},
		"C03": {"tick_with_expired", "tick_backlog_over_max_expired", "reason_span_limit", "reason_got_root", "reason_expired"},
		"C04": {"rate_checked_late", "rate_checked_client_rate"},
		"C05": {"dry_run_would_drop_forwarded", "dry_run_late_span"},
		"C06": {"root_counts_checked", "root_span_count_checked", "host_meta_on", "late_root"},
		"C07": {"ejection_checked"},
	}
	for _, id := range []string{"C01", "C02", "C03", "C04", "C05", "C06", "C07"} {
		Register(&Check{ID: id, World: "A/collector", Gen: genA(id), Run: runWorldA, Simplify: simplifyA, OwnProbes: own[id], Real: real, Stub: stub})
	}
	// C04 also covers the stress-relief path, which only exists with the routers: a
	// quarter of its runs are World B stress plans (late spans, under stress, of
	// traces decided earlier at another rate)
	c04 := registry["C04"]
	baseGen := c04.Gen
	c04.World = "A/collector + B/cluster (stress path)"
	c04.Gen = func(r *Rng, tier string, p *Plan) {
		if r.Bool(0.25) {
			p.N["stressb"] = 1
			genStressB(r, tier, p)
			return
		}
		baseGen(r, tier, p)
	}
	c04.Run = func(t *testing.T, p *Plan) *Outcome {
		if p.On("stressb") {
			return runStressB(t, p)
		}
		return runWorldA(t, p)
	}
	c04.Simplify = func(p *Plan) []*Plan {
		if p.On("stressb") {
			return nil
		}
		return simplifyA(p)
	}
	c04.OwnProbes = append(c04.OwnProbes, "late_span_under_stress_of_trace_decided_before", "stressed_span_kept")
}
