//go:build verif

package verifsim

import (
	"sync"
	"time"

	"github.com/honeycombio/refinery/internal/simhook"
)

// SendGate is the seam at the start of DirectTransmission.sendBatch (simhook
// yield "transmit.sendBatch"): while the gate is closed every goroutine that
// is about to marshal and send a batch waits there. That is the interleaving
// "a batch has been taken off the pending list and handed to a sender that has
// not run yet" - on a busy machine, or with the dispatch pool full, that state
// lasts long enough for more events to be enqueued for the same destination.
type SendGate struct {
	mu      sync.Mutex
	gate    chan struct{}
	since   time.Time
	Windows [][2]time.Time // closed intervals, for oracles that reason about timing
	Held    int            // senders that actually waited
	closed  bool
}

func (g *SendGate) Install() {
	simhook.SetYield(func(site string) {
		if site != "transmit.sendBatch" {
			return
		}
		g.mu.Lock()
		ch := g.gate
		if ch != nil {
			g.Held++
		}
		g.mu.Unlock()
		if ch != nil {
			<-ch
		}
	})
}

func (g *SendGate) Uninstall() {
	g.Release()
	simhook.SetYield(nil)
}

// Close releases every held sender and makes later Park calls no-ops.
func (g *SendGate) Close() {
	g.Release()
	g.mu.Lock()
	g.closed = true
	g.mu.Unlock()
}

func (g *SendGate) Park() {
	g.mu.Lock()
	defer g.mu.Unlock()
	if g.gate == nil && !g.closed {
		g.gate = make(chan struct{})
		g.since = time.Now()
	}
}

func (g *SendGate) Release() {
	g.mu.Lock()
	defer g.mu.Unlock()
	if g.gate != nil {
		close(g.gate)
		g.gate = nil
		g.Windows = append(g.Windows, [2]time.Time{g.since, time.Now()})
	}
}

// Overlaps reports whether the gate was closed at some instant of [a, b].
func (g *SendGate) Overlaps(a, b time.Time) bool {
	g.mu.Lock()
	defer g.mu.Unlock()
	for _, w := range g.Windows {
		if !w[1].Before(a) && !w[0].After(b) {
			return true
		}
	}
	if g.gate != nil && !g.since.After(b) {
		return true
	}
	return false
}
