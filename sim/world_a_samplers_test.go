//go:build verif

package verifsim

import (
	"encoding/json"
	"fmt"
	"reflect"
	"sort"
	"testing"
	"time"

	dynsampler "github.com/honeycombio/dynsampler-go"

	"github.com/honeycombio/refinery/config"
	"github.com/honeycombio/refinery/sample"
)

// C12 / C13: the sampler factory seen through the real collector workers.
// Workload: a generated "rules file" with several environments; inside one
// environment a rules-based sampler whose downstream samplers are identical,
// or differ in exactly one parameter; traffic makes each worker create each
// sampler lazily; reloads and peer-count changes are interleaved.

type sdef struct {
	Type    string   `json:"type"`
	Rate    int      `json:"rate,omitempty"`
	Goal    int      `json:"goal,omitempty"`
	Fields  []string `json:"fields,omitempty"`
	MaxKeys int      `json:"maxkeys,omitempty"`
	ClearMs int      `json:"clear_ms,omitempty"`
	UTL     bool     `json:"utl,omitempty"`
	UCS     bool     `json:"ucs,omitempty"`
	Weight  float64  `json:"weight,omitempty"`
	Initial int      `json:"initial,omitempty"`
}

type envdef struct {
	Top   *sdef  `json:"top,omitempty"`
	Rules []sdef `json:"rules,omitempty"`
}

type rulesFile map[string]envdef

var ruleValues = []string{"x", "y", "z", "w"}

func (d sdef) toConfig() any {
	ms := func(n int) config.Duration { return config.Duration(time.Duration(n) * time.Millisecond) }
	switch d.Type {
	case "dynamic":
		return &config.DynamicSamplerConfig{SampleRate: int64(d.Rate), FieldList: d.Fields, MaxKeys: d.MaxKeys, ClearFrequency: ms(d.ClearMs), UseTraceLength: d.UTL}
	case "ema":
		return &config.EMADynamicSamplerConfig{GoalSampleRate: d.Rate, FieldList: d.Fields, MaxKeys: d.MaxKeys, AdjustmentInterval: ms(d.ClearMs), UseTraceLength: d.UTL, Weight: d.Weight}
	case "total":
		return &config.TotalThroughputSamplerConfig{GoalThroughputPerSec: d.Goal, FieldList: d.Fields, MaxKeys: d.MaxKeys, ClearFrequency: ms(d.ClearMs), UseTraceLength: d.UTL, UseClusterSize: d.UCS}
	case "emat":
		return &config.EMAThroughputSamplerConfig{GoalThroughputPerSec: d.Goal, FieldList: d.Fields, MaxKeys: d.MaxKeys, AdjustmentInterval: ms(d.ClearMs), UseTraceLength: d.UTL, UseClusterSize: d.UCS, Weight: d.Weight, InitialSampleRate: d.Initial}
	case "windowed":
		return &config.WindowedThroughputSamplerConfig{GoalThroughputPerSec: d.Goal, FieldList: d.Fields, MaxKeys: d.MaxKeys, UpdateFrequency: ms(d.ClearMs), LookbackFrequency: ms(d.ClearMs * 3), UseTraceLength: d.UTL, UseClusterSize: d.UCS}
	}
	return &config.DeterministicSamplerConfig{SampleRate: max(d.Rate, 1)}
}

func (d sdef) downstream() *config.RulesBasedDownstreamSampler {
	ds := &config.RulesBasedDownstreamSampler{}
	switch c := d.toConfig().(type) {
	case *config.DynamicSamplerConfig:
		ds.DynamicSampler = c
	case *config.EMADynamicSamplerConfig:
		ds.EMADynamicSampler = c
	case *config.TotalThroughputSamplerConfig:
		ds.TotalThroughputSampler = c
	case *config.EMAThroughputSamplerConfig:
		ds.EMAThroughputSampler = c
	case *config.WindowedThroughputSamplerConfig:
		ds.WindowedThroughputSampler = c
	case *config.DeterministicSamplerConfig:
		ds.DeterministicSampler = c
	}
	return ds
}

func (e envdef) choice() *config.V2SamplerChoice {
	ch := &config.V2SamplerChoice{}
	if e.Top != nil {
		switch c := e.Top.toConfig().(type) {
		case *config.DynamicSamplerConfig:
			ch.DynamicSampler = c
		case *config.EMADynamicSamplerConfig:
			ch.EMADynamicSampler = c
		case *config.TotalThroughputSamplerConfig:
			ch.TotalThroughputSampler = c
		case *config.EMAThroughputSamplerConfig:
			ch.EMAThroughputSampler = c
		case *config.WindowedThroughputSamplerConfig:
			ch.WindowedThroughputSampler = c
		case *config.DeterministicSamplerConfig:
			ch.DeterministicSampler = c
		}
		return ch
	}
	rb := &config.RulesBasedSamplerConfig{}
	for i, d := range e.Rules {
		rb.Rules = append(rb.Rules, &config.RulesBasedSamplerRule{
			Name:       fmt.Sprintf("rule%d", i),
			Conditions: []*config.RulesBasedSamplerCondition{{Field: "f1", Operator: config.EQ, Value: ruleValues[i%len(ruleValues)]}},
			Sampler:    d.downstream(),
		})
	}
	rb.Rules = append(rb.Rules, &config.RulesBasedSamplerRule{Name: "rest", SampleRate: 1})
	ch.RulesBasedSampler = rb
	return ch
}

func (rf rulesFile) samplers() map[string]*config.V2SamplerChoice {
	m := map[string]*config.V2SamplerChoice{}
	for env, e := range rf {
		m[env] = e.choice()
	}
	return m
}

func randDef(r *Rng, throughputOnly bool) sdef {
	types := []string{"dynamic", "ema", "total", "emat", "windowed"}
	if throughputOnly {
		types = []string{"total", "emat", "windowed"}
	}
	d := sdef{Type: PickOf(r, types...), Fields: PickOf(r, []string{"f1"}, []string{"name"}, []string{"f1", "name"})}
	d.Rate = PickOf(r, 2, 3, 10)
	d.Goal = PickOf(r, 1, 2, 7, 100, 1000, 1_000_000)
	d.ClearMs = PickOf(r, 0, 500, 2000)
	if d.Type == "windowed" && d.ClearMs == 0 {
		d.ClearMs = 1000
	}
	d.MaxKeys = PickOf(r, 0, 0, 10, 500)
	d.UTL = r.Bool(0.3)
	d.UCS = r.Bool(0.6)
	if d.Type == "ema" || d.Type == "emat" {
		d.Weight = PickOf(r, 0.0, 0.3, 0.5)
	}
	if d.Type == "emat" {
		d.Initial = PickOf(r, 0, 2, 10)
	}
	return d.norm()
}

// norm zeroes the parameters a type does not have, so that "differs in one
// parameter" really is a difference in the resulting configuration.
func (d sdef) norm() sdef {
	switch d.Type {
	case "dynamic":
		d.Goal, d.UCS, d.Weight, d.Initial = 0, false, 0, 0
	case "ema":
		d.Goal, d.UCS, d.Initial = 0, false, 0
	case "total":
		d.Rate, d.Weight, d.Initial = 0, 0, 0
	case "emat":
		d.Rate = 0
	case "windowed":
		d.Rate, d.Weight, d.Initial = 0, 0, 0
	}
	return d
}

func mutateDef(r *Rng, d sdef) (sdef, string) {
	for tries := 0; tries < 20; tries++ {
		e := d
		e.Fields = append([]string(nil), d.Fields...)
		var what string
		switch r.Intn(8) {
		case 0:
			e.MaxKeys = PickOf(r, 0, 10, 77, 500)
			what = "MaxKeys"
		case 1:
			e.ClearMs = PickOf(r, 500, 1000, 2000, 4000)
			what = "ClearFrequency/AdjustmentInterval/UpdateFrequency"
		case 2:
			e.UTL = !d.UTL
			what = "UseTraceLength"
		case 3:
			e.UCS = !d.UCS
			what = "UseClusterSize"
		case 4:
			e.Weight = PickOf(r, 0.2, 0.3, 0.5, 0.7)
			what = "Weight"
		case 5:
			e.Initial = PickOf(r, 2, 5, 10)
			what = "InitialSampleRate"
		case 6:
			e.Rate = PickOf(r, 2, 3, 5, 10)
			e.Goal = PickOf(r, 1, 2, 7, 100, 1000)
			what = "rate/goal"
		case 7:
			e.Fields = PickOf(r, []string{"f1"}, []string{"name"}, []string{"f1", "name"})
			what = "FieldList"
		}
		e = e.norm()
		if !reflect.DeepEqual(e.toConfig(), d.toConfig()) {
			return e, what
		}
	}
	return d, ""
}

func genRulesFile(r *Rng, throughputOnly bool) rulesFile {
	rf := rulesFile{}
	var pool []sdef
	for _, env := range []string{"envA", "envB", "__default__"} {
		if r.Bool(0.35) {
			d := randDef(r, throughputOnly)
			if len(pool) > 0 && r.Bool(0.5) {
				d = pool[r.Intn(len(pool))] // the same definition in another environment
			}
			pool = append(pool, d)
			rf[env] = envdef{Top: &d}
			continue
		}
		n := r.Range(2, 4)
		var rules []sdef
		for i := 0; i < n; i++ {
			switch {
			case i > 0 && r.Bool(0.35):
				rules = append(rules, rules[r.Intn(len(rules))]) // identical definition
			case i > 0 && r.Bool(0.6):
				m, _ := mutateDef(r, rules[r.Intn(len(rules))]) // differs in exactly one parameter
				rules = append(rules, m)
			case len(pool) > 0 && r.Bool(0.3):
				rules = append(rules, pool[r.Intn(len(pool))])
			default:
				rules = append(rules, randDef(r, throughputOnly))
			}
		}
		pool = append(pool, rules...)
		rf[env] = envdef{Rules: rules}
	}
	return rf
}

func genSamplers(check string) func(r *Rng, tier string, p *Plan) {
	return func(r *Rng, tier string, p *Plan) {
		thorough := tier == "thorough"
		workers := PickOf(r, 1, 2, 2, 3, 4)
		if thorough && r.Bool(0.2) {
			workers = PickOf(r, 6, 8)
		}
		p.N["workers"] = int64(workers)
		p.N["send_ticker_us"] = 50_000
		p.N["trace_timeout_us"] = 300_000
		p.N["send_delay_us"] = 50_000
		p.N["peers"] = int64(PickOf(r, 1, 1, 2, 3, 7, 50))
		b, _ := json.Marshal(genRulesFile(r, check == "C13"))
		p.S["rules"] = string(b)
		b2, _ := json.Marshal(genRulesFile(r, check == "C13"))
		p.S["rules2"] = string(b2)
		nTraces := r.Range(6, 20)
		if thorough {
			nTraces = r.Range(6, 60)
		}
		horizon := int64(2_000_000)
		for ti := 0; ti < nTraces; ti++ {
			at := r.I64n(horizon) / 1000 * 1000
			env := PickOf(r, "envA", "envA", "envB", "envC")
			p.Add(Op{K: "span", At: at, I: int64(ti), N: skRoot | int64(r.Intn(4))<<8, S: env})
		}
		nEv := r.Range(1, 5)
		for i := 0; i < nEv; i++ {
			at := r.I64n(horizon) / 1000 * 1000
			switch r.Intn(5) {
			case 0:
				op := Op{K: "reload", At: at, S: "rules", N: int64(r.Intn(2)), B: r.Bool(0.3)}
				if r.Bool(0.5) {
					// traffic during the reload: a fresh trace is decided while the
					// collector's reload callback is half done
					op.M, op.I, op.J, op.T = 1, int64(2000+i), int64(r.Intn(4)), PickOf(r, "envA", "envB", "envC")
				}
				p.Add(op)
			case 2:
				// two fresh traces of one environment on different workers, decided at
				// the same time: both workers are in the creation of the same sampler
				p.Add(Op{K: "create_race", At: at, I: int64(3000 + 300*i), J: int64(r.Intn(4)), S: PickOf(r, "envA", "envB", "envC")})
			case 1:
				// a fresh trace (index beyond the others) in some environment, whose
				// decision makes its worker create the sampler lazily while the peer
				// list changes
				p.Add(Op{K: "peers_race", At: at, I: int64(1000 + i), J: int64(r.Intn(4)), S: PickOf(r, "envA", "envB", "envC"), N: int64(PickOf(r, 1, 2, 3, 5, 10))})
			default:
				p.Add(Op{K: "peers", At: at, N: int64(PickOf(r, 1, 2, 3, 4, 5, 10, 50))})
			}
		}
		if workers > 1 && r.Bool(0.2) {
			p.Add(Op{K: "reload_busy", At: r.I64n(horizon) / 1000 * 1000, I: 5000, J: int64(r.Intn(4)), S: PickOf(r, "envA", "envB", "envC"), N: int64(r.Intn(8)), M: int64(r.Intn(8))})
		}
		if r.Bool(0.25) {
			// for a while the peer list cannot be read: samplers created (or
			// re-created after a reload) meanwhile still get the cluster-size goal
			// from the last count that could
			a := r.I64n(horizon) / 1000 * 1000
			p.Add(Op{K: "peers_fail", At: a, N: 1})
			p.Add(Op{K: "peers_fail", At: a + PickOf(r, int64(200_000), 600_000, 1_500_000), N: 0})
			if r.Bool(0.7) {
				p.Add(Op{K: "reload", At: a + 50_000, S: "rules", N: int64(r.Intn(2))})
			}
		}
		p.SortOps()
	}
}

type liveSampler struct {
	worker int
	scope  string
	path   string
	cfg    any
	dyn    any
}

func (w *worldA) liveSamplers() []liveSampler {
	var out []liveSampler
	for wk := 0; wk < w.nWorkers; wk++ {
		m := w.coll.VerifWorkerSamplers(wk)
		keys := make([]string, 0, len(m))
		for k := range m {
			keys = append(keys, k)
		}
		sort.Strings(keys)
		for _, sel := range keys {
			s := m[sel]
			if s == nil {
				continue
			}
			cfg, dyn := sample.VerifDyn(s)
			if dyn != nil {
				out = append(out, liveSampler{wk, sel, "top", cfg, dyn})
			}
			for i, ds := range sample.VerifDownstream(s) {
				c2, d2 := sample.VerifDyn(ds)
				if d2 != nil {
					out = append(out, liveSampler{wk, sel, fmt.Sprintf("downstream#%d", i), c2, d2})
				}
			}
		}
	}
	return out
}

func goalOf(dyn any) (float64, bool) {
	switch d := dyn.(type) {
	case *dynsampler.TotalThroughput:
		return float64(d.GoalThroughputPerSec), true
	case *dynsampler.EMAThroughput:
		return float64(d.GoalThroughputPerSec), true
	case *dynsampler.WindowedThroughput:
		return d.GoalThroughputPerSec, true
	}
	return 0, false
}

func cfgGoal(cfg any) (goal int, ucs bool, ok bool) {
	switch c := cfg.(type) {
	case *config.TotalThroughputSamplerConfig:
		return c.GoalThroughputPerSec, c.UseClusterSize, true
	case *config.EMAThroughputSamplerConfig:
		return c.GoalThroughputPerSec, c.UseClusterSize, true
	case *config.WindowedThroughputSamplerConfig:
		return c.GoalThroughputPerSec, c.UseClusterSize, true
	}
	return 0, false, false
}

func descr(cfg any) string {
	b, _ := json.Marshal(cfg)
	return fmt.Sprintf("%T%s", cfg, b)
}

func checkSamplerSharing(w *worldA, where string) {
	ls := w.liveSamplers()
	if len(ls) > 0 {
		w.out.Probe("live_dynsamplers_examined")
	}
	for i := 0; i < len(ls); i++ {
		for j := i + 1; j < len(ls); j++ {
			a, b := ls[i], ls[j]
			same := a.dyn == b.dyn
			sameDef := reflect.DeepEqual(a.cfg, b.cfg)
			switch {
			case a.scope != b.scope:
				w.out.Probe("pair_across_scopes")
				if same {
					w.out.Violate("C12", "state_shared_across_scopes", "sample.SamplerFactory", "%s: samplers of %q (%s, worker %d) and %q (%s, worker %d) use the same rate-tracking instance", where, a.scope, a.path, a.worker, b.scope, b.path, b.worker)
				}
			case sameDef:
				w.out.Probe("pair_same_definition")
				if a.worker != b.worker {
					w.out.Probe("pair_same_definition_across_workers")
				}
				if !same {
					w.out.Violate("C12", "identical_definitions_not_shared", "sample.SamplerFactory", "%s: in %q the identical definition %s is tracked by different instances (worker %d %s vs worker %d %s)", where, a.scope, descr(a.cfg), a.worker, a.path, b.worker, b.path)
				}
			default:
				w.out.Probe("pair_different_definition_same_scope")
				if same {
					w.out.Violate("C12", "different_definitions_share_state", "sample.makeDynsamplerKey", "%s: in %q two different definitions share one rate-tracking instance: %s (worker %d %s) and %s (worker %d %s)", where, a.scope, descr(a.cfg), a.worker, a.path, descr(b.cfg), b.worker, b.path)
				}
			}
		}
	}
}

func checkGoals(w *worldA, where string) {
	// the cluster size the factory can know: the current one - or 1 (what it
	// starts with) if the peer list has never been readable so far
	peers := w.peerCount
	w.gpeers.mu.Lock()
	if !w.gpeers.everRead {
		peers = 1
	}
	w.gpeers.mu.Unlock()
	for _, l := range w.liveSamplers() {
		goal, ucs, ok := cfgGoal(l.cfg)
		if !ok {
			continue
		}
		got, ok := goalOf(l.dyn)
		if !ok {
			continue
		}
		want := goal
		if ucs {
			want = goal / peers
			if want < 1 {
				want = 1
			}
			w.out.Probe("cluster_size_goal_checked")
			if peers > 1 {
				w.out.Probe("cluster_size_goal_checked_multi_peer")
			}
		} else {
			w.out.Probe("fixed_goal_checked")
		}
		if int(got) != want {
			w.out.Violate("C13", "throughput_goal", "sample.SamplerFactory", "%s: %q %s (worker %d) %s: goal in force %v, want %d (configured %d, UseClusterSize=%v, peers=%d)", where, l.scope, l.path, l.worker, descr(l.cfg), got, want, goal, ucs, peers)
		}
	}
}

func runSamplers(t *testing.T, p *Plan) *Outcome {
	load := func(key string) rulesFile {
		var rf rulesFile
		json.Unmarshal([]byte(p.S[key]), &rf)
		return rf
	}
	return runWorldAWith(t, p, aOpts{
		noBase: true,
		preStart: func(w *worldA) {
			w.cfg.Samplers = load("rules").samplers()
			w.reloadHook = func(op Op) bool {
				if op.S != "rules" {
					return false
				}
				key := "rules"
				if op.N == 1 {
					key = "rules2"
				}
				w.cfg.Mux.Lock()
				w.cfg.Samplers = load(key).samplers()
				w.cfg.Mux.Unlock()
				return true
			}
		},
		afterStep: func(w *worldA, kind string) {
			where := fmt.Sprintf("after step %d (%s)", w.out.Steps, kind)
			checkSamplerSharing(w, where)
			checkGoals(w, where)
		},
		final: func(w *worldA) {
			checkSamplerSharing(w, "at end")
			checkGoals(w, "at end")
		},
	})
}

func simplifySamplers(p *Plan) []*Plan {
	var out []*Plan
	if p.N["workers"] > 1 {
		q := p.Clone()
		q.N["workers"] = 1
		out = append(out, q)
		q = p.Clone()
		q.N["workers"] = 2
		out = append(out, q)
	}
	if p.N["peers"] > 1 {
		q := p.Clone()
		q.N["peers"] = 1
		out = append(out, q)
	}
	// drop environments / rules from the rules file
	for _, key := range []string{"rules", "rules2"} {
		var rf rulesFile
		if json.Unmarshal([]byte(p.S[key]), &rf) != nil {
			continue
		}
		envs := make([]string, 0, len(rf))
		for e := range rf {
			envs = append(envs, e)
		}
		sort.Strings(envs)
		for _, e := range envs {
			if len(rf) > 1 {
				r2 := rulesFile{}
				for k, v := range rf {
					if k != e {
						r2[k] = v
					}
				}
				b, _ := json.Marshal(r2)
				q := p.Clone()
				q.S[key] = string(b)
				out = append(out, q)
			}
			for i := range rf[e].Rules {
				if len(rf[e].Rules) <= 1 {
					break
				}
				r2 := rulesFile{}
				for k, v := range rf {
					r2[k] = v
				}
				ed := rf[e]
				ed.Rules = append(append([]sdef(nil), ed.Rules[:i]...), ed.Rules[i+1:]...)
				r2[e] = ed
				b, _ := json.Marshal(r2)
				q := p.Clone()
				q.S[key] = string(b)
				out = append(out, q)
			}
		}
	}
	return out
}

func init() {
	real := []string{"sample.SamplerFactory", "all sampler implementations", "dynsampler-go", "collect.InMemCollector + workers (lazy sampler creation, reload fan-out)"}
	stub := []string{"config (MockConfig with a generated multi-environment rules map)", "peers (MockPeers firing the registered callback)", "transmission (recording double)", "clock (SimClock)", "metrics (MockMetrics)"}
	Register(&Check{ID: "C12", World: "A/samplers", Gen: genSamplers("C12"), Run: runSamplers, Simplify: simplifySamplers,
		OwnProbes: []string{"pair_same_definition_across_workers", "pair_different_definition_same_scope", "pair_across_scopes", "decision_while_reload_half_done", "two_workers_in_the_same_sampler_creation"}, Real: real, Stub: stub})
	Register(&Check{ID: "C13", World: "A/samplers", Gen: genSamplers("C13"), Run: runSamplers, Simplify: simplifySamplers,
		OwnProbes: []string{"cluster_size_goal_checked_multi_peer", "fixed_goal_checked", "peer_count_change", "peer_lookup_overtaken_by_membership_change"}, Real: real, Stub: stub})
}
