//go:build verif

package verifsim

import (
	"context"
	"fmt"
	"sort"
	"strings"
	"sync"
	"testing"
	"time"

	"github.com/open-telemetry/opamp-go/client/types"
	"github.com/open-telemetry/opamp-go/protobufs"
	"go.opentelemetry.io/collector/pdata/pmetric"

	"github.com/honeycombio/refinery/agent"
	"github.com/honeycombio/refinery/config"
	"github.com/honeycombio/refinery/internal/health"
	"github.com/honeycombio/refinery/logger"
	"github.com/honeycombio/refinery/metrics"
)

// C34: usage reports neither lose nor double-count usage.
//
// Real: agent.Agent's collection loop (healthCheck) and report loop
// (reportUsagePeriodically/sendUsageReport), agent.usageTracker, the OTLP
// report encoding, metrics.MultiMetrics as the source of cumulative counters.
// Stub: the OpAMP client (fake; the outcome of every send attempt comes from
// the plan: success, pending-then-success, pending-then-failure,
// pending-then-pending, failure).
//
// Oracle: no data point < 0 in any report; whenever no send is in flight, per
// signal: sum(successfully sent reports) + (what the tracker still holds) =
// growth of the underlying counters as of the last collection.

func init() {
	Register(&Check{
		ID: "C34", World: "E/agent-usage", Gen: genAgent, Run: runAgent,
		OwnProbes: []string{"send_failed", "send_pending_then_ok", "send_pending_then_failed", "send_pending_then_pending", "two_consecutive_failures", "conservation_checked_after_failure"},
		Real:      []string{"agent.Agent (healthCheck collection loop, reportUsagePeriodically, sendUsageReport)", "agent.usageTracker", "agent OTLP report encoding", "metrics.MultiMetrics"},
		Stub:      []string{"OpAMP client (fake; per-attempt outcome from the plan)", "clock (SimClock)", "config (MockConfig)", "health reporter (mock)"},
	})
}

type fakeOpAMP struct {
	mu       sync.Mutex
	w        *agentWorld
	attempts int
}

func (f *fakeOpAMP) Start(context.Context, types.StartSettings) error          { return nil }
func (f *fakeOpAMP) Stop(context.Context) error                                { return nil }
func (f *fakeOpAMP) SetAgentDescription(*protobufs.AgentDescription) error     { return nil }
func (f *fakeOpAMP) AgentDescription() *protobufs.AgentDescription             { return nil }
func (f *fakeOpAMP) SetHealth(*protobufs.ComponentHealth) error                { return nil }
func (f *fakeOpAMP) UpdateEffectiveConfig(context.Context) error               { return nil }
func (f *fakeOpAMP) SetRemoteConfigStatus(*protobufs.RemoteConfigStatus) error { return nil }
func (f *fakeOpAMP) SetPackageStatuses(*protobufs.PackageStatuses) error       { return nil }
func (f *fakeOpAMP) RequestConnectionSettings(*protobufs.ConnectionSettingsRequest) error {
	return nil
}
func (f *fakeOpAMP) SetCustomCapabilities(*protobufs.CustomCapabilities) error { return nil }
func (f *fakeOpAMP) SetFlags(protobufs.AgentToServerFlags)                     {}
func (f *fakeOpAMP) SetAvailableComponents(*protobufs.AvailableComponents) error {
	return nil
}
func (f *fakeOpAMP) SetCapabilities(*protobufs.AgentCapabilities) error { return nil }

// SendCustomMessage follows opamp-go's contract: (chan, nil) = accepted, the
// channel is closed once the message has been sent; (chan, ErrCustomMessagePending)
// = another message is pending, the channel is closed when that one is out.
func (f *fakeOpAMP) SendCustomMessage(m *protobufs.CustomMessage) (chan struct{}, error) {
	f.mu.Lock()
	defer f.mu.Unlock()
	w := f.w
	w.inFlight = true
	if w.pendingRetry != "" {
		// this is the single retry after a pending answer
		mode := w.pendingRetry
		w.pendingRetry = ""
		if mode == "pending" {
			// yet another custom message got in first: still not queued; the channel
			// is again the other message's
			w.out.Probe("send_pending_then_pending")
			w.noteFailure()
			w.inFlight = false
			ch := make(chan struct{})
			w.drv.AtAbs(time.Now().Add(w.sendDelay), "opamp", fmt.Sprintf("pending-again-clears/%d", f.attempts), func() { close(ch) })
			return ch, types.ErrCustomMessagePending
		}
		if mode == "fail" {
			w.out.Probe("send_pending_then_failed")
			w.noteFailure()
			w.inFlight = false
			return nil, fmt.Errorf("simulated send failure after pending")
		}
		w.out.Probe("send_pending_then_ok")
		return w.accept(m), nil
	}
	f.attempts++
	outcome := w.outcomeFor(f.attempts)
	switch outcome {
	case "fail":
		w.out.Probe("send_failed")
		w.out.Fault("opamp_send_failure")
		w.noteFailure()
		w.inFlight = false
		return nil, fmt.Errorf("simulated send failure")
	case "pending_ok", "pending_fail", "pending_pending":
		w.out.Fault("opamp_send_pending")
		w.pendingRetry = strings.TrimPrefix(outcome, "pending_")
		ch := make(chan struct{})
		w.drv.AtAbs(time.Now().Add(w.sendDelay), "opamp", fmt.Sprintf("pending-clears/%d", f.attempts), func() { close(ch) })
		return ch, types.ErrCustomMessagePending
	}
	return w.accept(m), nil
}

type agentWorld struct {
	p            *Plan
	out          *Outcome
	drv          *Driver
	sendDelay    time.Duration
	pendingRetry string
	inFlight     bool
	delivered    map[string]float64
	failsInRow   int
	anyFailure   bool
	reports      int
}

func (w *agentWorld) outcomeFor(attempt int) string {
	for _, op := range w.p.Ops {
		if op.K == "outcome" && int(op.I) == attempt {
			return op.S
		}
	}
	return "ok"
}

func (w *agentWorld) noteFailure() {
	w.failsInRow++
	w.anyFailure = true
	if w.failsInRow >= 2 {
		w.out.Probe("two_consecutive_failures")
	}
}

func (w *agentWorld) accept(m *protobufs.CustomMessage) chan struct{} {
	ch := make(chan struct{})
	data := append([]byte(nil), m.Data...)
	w.reports++
	n := w.reports
	w.drv.AtAbs(time.Now().Add(w.sendDelay), "opamp", fmt.Sprintf("sent/%d", n), func() {
		// the server has the report now
		um := &pmetric.JSONUnmarshaler{}
		md, err := um.UnmarshalMetrics(data)
		if err != nil {
			w.out.Violate("C34", "report_not_decodable", "agent.usageTracker.NewReport", "report %d: %v", n, err)
		} else {
			rms := md.ResourceMetrics()
			for i := 0; i < rms.Len(); i++ {
				sms := rms.At(i).ScopeMetrics()
				for j := 0; j < sms.Len(); j++ {
					ms := sms.At(j).Metrics()
					for k := 0; k < ms.Len(); k++ {
						m := ms.At(k)
						dps := m.Sum().DataPoints()
						for d := 0; d < dps.Len(); d++ {
							dp := dps.At(d)
							sig := m.Name()
							if v, ok := dp.Attributes().Get("signal"); ok {
								sig += "/" + v.Str()
							}
							val := float64(dp.IntValue())
							if val < 0 {
								w.out.Violate("C34", "negative_usage_in_report", "agent.usageTracker", "report %d carries %s=%v", n, sig, val)
							}
							w.delivered[sig] += val
						}
					}
				}
			}
		}
		w.failsInRow = 0
		close(ch)
		// the agent's completeSend runs in the same step (quiescence follows)
		w.inFlight = false
	})
	return ch
}

func genAgent(r *Rng, tier string, p *Plan) {
	p.N["usage_every_us"] = PickOf(r, int64(300_000), 500_000, 1_000_000)
	p.N["collect_every_us"] = PickOf(r, int64(100_000), 200_000, 500_000)
	p.N["send_delay_us"] = PickOf(r, int64(0), 1000, 50_000, 400_000)
	n := r.Range(4, 20)
	if tier == "thorough" {
		n = r.Range(4, 60)
	}
	now := int64(0)
	for i := 0; i < n; i++ {
		now += PickOf(r, int64(10_000), 100_000, 250_000, 700_000)
		p.Add(Op{K: "grow", At: now, S: PickOf(r, "bytes_received_traces", "bytes_received_logs", "incoming_router_span", "incoming_router_event", "events_dropped"), N: int64(r.Range(1, 5000))})
	}
	attempts := int(now/p.N["usage_every_us"]) + 6
	failRate := PickOf(r, 0.0, 0.2, 0.5, 0.8)
	for a := 1; a <= attempts; a++ {
		if r.Bool(failRate) {
			p.Add(Op{K: "outcome", I: int64(a), S: PickOf(r, "fail", "fail", "pending_ok", "pending_fail", "pending_pending")})
		}
	}
	if r.Bool(0.3) {
		// OpAMP.RecordUsage is switched off for a while (a remote config change)
		// and on again; the counters keep growing meanwhile
		off := r.I64n(now + 1)
		p.Add(Op{K: "record", At: off, N: 0})
		p.Add(Op{K: "record", At: off + PickOf(r, int64(150_000), 600_000, 2_000_000), N: 1})
	}
	p.SortOps()
}

func sigOf(metric string) string {
	switch metric {
	case "bytes_received_traces":
		return "bytes_received/traces"
	case "bytes_received_logs":
		return "bytes_received/logs"
	case "events_dropped":
		return "events_dropped"
	}
	return "events_received"
}

func runAgent(t *testing.T, p *Plan) *Outcome {
	out := NewOutcome()
	pt := InBubble(t, func() {
		clk := NewSimClock("agent")
		drv := NewDriver(out, p.Seed, clk)
		w := &agentWorld{p: p, out: out, drv: drv, sendDelay: us(p.N["send_delay_us"]), delivered: map[string]float64{}}
		cfg := &config.MockConfig{}
		mm := metrics.NewMultiMetrics()
		mm.Config = cfg
		mm.Start()
		for _, n := range []string{"bytes_received_traces", "bytes_received_logs", "incoming_router_span", "incoming_router_nonspan_event", "incoming_router_event", "events_dropped"} {
			mm.Register(metrics.Metadata{Name: n, Type: metrics.Counter})
		}
		fake := &fakeOpAMP{w: w}
		hr := &health.MockHealthReporter{}
		hr.SetAlive(true)
		hr.SetReady(true)
		a := agent.VerifNewAgent(clk, agent.Logger{Logger: &logger.NullLogger{}}, cfg, mm, hr, fake, us(p.N["collect_every_us"]), us(p.N["usage_every_us"]))
		drv.Settle()
		grown := map[string]float64{}     // true counter growth per signal
		collected := map[string]float64{} // growth as of the agent's last collection tick
		check := func(where string) {
			if w.inFlight || w.pendingRetry != "" {
				return
			}
			held := a.VerifHeld()
			sigs := map[string]bool{}
			for s := range collected {
				sigs[s] = true
			}
			for s := range w.delivered {
				sigs[s] = true
			}
			names := make([]string, 0, len(sigs))
			for s := range sigs {
				names = append(names, s)
			}
			sort.Strings(names)
			heldBySig := map[string]float64{}
			for k, v := range held {
				switch k {
				case "traces":
					heldBySig["bytes_received/traces"] += v
				case "logs":
					heldBySig["bytes_received/logs"] += v
				default:
					heldBySig[k] += v
				}
			}
			for _, s := range names {
				if w.anyFailure {
					out.Probe("conservation_checked_after_failure")
				}
				if got := w.delivered[s] + heldBySig[s]; got != collected[s] {
					kind := "usage_lost"
					if got > collected[s] {
						kind = "usage_double_counted"
					}
					out.Violate("C34", kind, "agent.usageTracker", "%s: signal %s: successfully sent %v + still held %v = %v, but the counter has grown by %v as of the last collection", where, s, w.delivered[s], heldBySig[s], got, collected[s])
				}
			}
			out.Logf("%s delivered=%v held=%v collected=%v", where, w.delivered, heldBySig, collected)
		}
		recording := true
		drv.AfterTick = func(tk *SimTicker, delivered bool) {
			if strings.Contains(tk.Key, "healthCheck") && delivered && recording {
				for k, v := range grown {
					collected[k] = v
				}
			}
		}
		drv.AfterStep = func(kind, ident string) { check(fmt.Sprintf("after %s %s t=%v", kind, ident, drv.Elapsed())) }
		var last int64
		for _, op := range p.Ops {
			op := op
			if op.K == "record" {
				if op.At > last {
					last = op.At
				}
				drv.AtSig(us(op.At), "record", fmt.Sprintf("op/%d", op.ID), fmt.Sprint(op.N), func() {
					v := config.DefaultTrue(op.N == 1)
					cfg.Mux.Lock()
					cfg.GetOpAmpConfigVal.RecordUsage = &v
					cfg.Mux.Unlock()
					recording = op.N == 1
					if !recording {
						out.Fault("usage_recording_switched_off")
					}
				})
				continue
			}
			if op.K != "grow" {
				continue
			}
			if op.At > last {
				last = op.At
			}
			drv.AtSig(us(op.At), "grow", fmt.Sprintf("op/%d", op.ID), op.S, func() {
				mm.Count(op.S, op.N)
				grown[sigOf(op.S)] += float64(op.N)
			})
		}
		drv.Run(us(last) + 4*us(p.N["usage_every_us"]) + 2*w.sendDelay)
		a.Stop(context.Background())
		drv.Settle()
	})
	if pt != "" && out.Harness == "" {
		out.Harness = "panic: " + pt
	}
	return out
}
