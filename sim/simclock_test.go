//go:build verif

package verifsim

import (
	"context"
	"fmt"
	"runtime"
	"sort"
	"strconv"
	"strings"
	"sync"
	"testing/synctest"
	"time"

	"github.com/jonboulle/clockwork"
	"go.opentelemetry.io/otel/attribute"
	"go.opentelemetry.io/otel/trace"
	"go.opentelemetry.io/otel/trace/noop"
)

// goid returns the current goroutine's id (harness-only; used to bind tickers
// to the component instance that created them).
func goid() int64 {
	var buf [64]byte
	n := runtime.Stack(buf[:], false)
	s := strings.TrimPrefix(string(buf[:n]), "goroutine ")
	if i := strings.IndexByte(s, ' '); i > 0 {
		id, _ := strconv.ParseInt(s[:i], 10, 64)
		return id
	}
	return 0
}

// ---------------------------------------------------------------------------
// SimClock: clockwork.Clock on top of the bubble clock. Now/Sleep/After/timers
// are the bubble's; tickers are owned by the Driver, which delivers each tick
// as an individual, ordered stimulus.

type SimTicker struct {
	clk     *SimClock
	Key     string // stable identity, e.g. "n0/collect.(*InMemCollector).monitor/100ms"
	creator string
	goid    int64
	period  time.Duration
	next    time.Time
	ch      chan time.Time
	stopped bool
	Fires   int
	Held    bool // driver withholds delivery while set
}

func (t *SimTicker) Chan() <-chan time.Time { return t.ch }
func (t *SimTicker) Stop() {
	t.clk.mu.Lock()
	t.stopped = true
	t.clk.mu.Unlock()
}
func (t *SimTicker) Reset(d time.Duration) {
	t.clk.mu.Lock()
	t.period = d
	t.next = time.Now().Add(d)
	t.stopped = false
	t.clk.mu.Unlock()
}

type SimClock struct {
	Node    string
	mu      sync.Mutex
	tickers []*SimTicker
	counts  map[string]int
	real    clockwork.Clock
	// Passthrough: tickers with these creator substrings are plain bubble
	// tickers (not owned by the driver).
	Passthrough []string
}

func NewSimClock(node string) *SimClock {
	return &SimClock{Node: node, counts: map[string]int{}, real: clockwork.NewRealClock()}
}

func (c *SimClock) After(d time.Duration) <-chan time.Time { return time.After(d) }
func (c *SimClock) Sleep(d time.Duration)                  { time.Sleep(d) }
func (c *SimClock) Now() time.Time                         { return time.Now() }
func (c *SimClock) Since(t time.Time) time.Duration        { return time.Now().Sub(t) }
func (c *SimClock) Until(t time.Time) time.Duration        { return t.Sub(time.Now()) }
func (c *SimClock) NewTimer(d time.Duration) clockwork.Timer {
	return c.real.NewTimer(d)
}
func (c *SimClock) AfterFunc(d time.Duration, f func()) clockwork.Timer {
	return c.real.AfterFunc(d, f)
}

func creatorName() string {
	pcs := make([]uintptr, 16)
	n := runtime.Callers(3, pcs)
	frames := runtime.CallersFrames(pcs[:n])
	for {
		f, more := frames.Next()
		fn := f.Function
		if fn != "" && !strings.Contains(fn, "verifsim.") && !strings.Contains(fn, "clockwork.") {
			if i := strings.LastIndex(fn, "/"); i >= 0 {
				fn = fn[i+1:]
			}
			return fn
		}
		if !more {
			break
		}
	}
	return "unknown"
}

func (c *SimClock) NewTicker(d time.Duration) clockwork.Ticker {
	cr := creatorName()
	for _, p := range c.Passthrough {
		if strings.Contains(cr, p) {
			return c.real.NewTicker(d)
		}
	}
	c.mu.Lock()
	defer c.mu.Unlock()
	base := fmt.Sprintf("%s/%s/%v", c.Node, cr, d)
	t := &SimTicker{clk: c, creator: cr, goid: goid(), period: d, next: time.Now().Add(d), ch: make(chan time.Time, 1)}
	// Key is provisional: instances created concurrently by identical
	// goroutines (the collector workers) are re-keyed by Bind().
	c.counts[base]++
	t.Key = fmt.Sprintf("%s#%d", base, c.counts[base])
	c.tickers = append(c.tickers, t)
	return t
}

// Tickers returns a snapshot.
func (c *SimClock) Tickers() []*SimTicker {
	c.mu.Lock()
	defer c.mu.Unlock()
	return append([]*SimTicker(nil), c.tickers...)
}

// BindByGoid re-keys the tickers created by goroutine g.
func (c *SimClock) BindByGoid(g int64, creatorSubstr, key string) bool {
	c.mu.Lock()
	defer c.mu.Unlock()
	for _, t := range c.tickers {
		if t.goid == g && strings.Contains(t.creator, creatorSubstr) {
			t.Key = key
			return true
		}
	}
	return false
}

func (c *SimClock) Find(key string) *SimTicker {
	c.mu.Lock()
	defer c.mu.Unlock()
	for _, t := range c.tickers {
		if t.Key == key && !t.stopped {
			return t
		}
	}
	return nil
}

// ---------------------------------------------------------------------------
// Driver: the discrete-event loop. It runs on the bubble's root goroutine.

type simEvent struct {
	at    time.Time
	ident string
	kind  string
	fn    func()
	tk    *SimTicker
	sig   string // what enters the schedule signature (target rather than op number)
}

type Driver struct {
	Out    *Outcome
	Seed   uint64
	Start  time.Time
	Clocks []*SimClock
	evMu   sync.Mutex // At/AtAbs may be called from refinery goroutines (e.g. a publish)
	evs    []*simEvent
	// AfterStep runs at quiescence after every delivered stimulus.
	AfterStep func(kind, ident string)
	// TickDelay, if set, returns how late a given tick is delivered (fault).
	TickDelay func(tk *SimTicker, fire int) time.Duration
	// TickGate, if set and returning false, postpones delivery of the tick
	// (re-examined at the next event instant); used to keep at most one
	// input of a consumer ready at a time.
	TickGate func(tk *SimTicker) bool
	// OnTick is called just before/after a tick is put in the channel.
	BeforeTick func(tk *SimTicker)
	AfterTick  func(tk *SimTicker, delivered bool)
	// Race mode: no synctest.Wait between steps (it would add a
	// happens-before edge); a 1ns bubble sleep waits for quiescence instead.
	RaceMode bool
	stop     bool
	// the stimulus being delivered right now ("" between steps)
	CurKind, CurIdent string
}

func NewDriver(out *Outcome, seed uint64, clocks ...*SimClock) *Driver {
	return &Driver{Out: out, Seed: seed, Start: time.Now(), Clocks: clocks}
}

func (d *Driver) Elapsed() time.Duration { return time.Now().Sub(d.Start) }

func (d *Driver) Settle() {
	if d.RaceMode {
		time.Sleep(time.Nanosecond)
		return
	}
	synctest.Wait()
}

// At schedules fn at offset at from the run start.
func (d *Driver) At(at time.Duration, kind, ident string, fn func()) {
	d.evMu.Lock()
	defer d.evMu.Unlock()
	d.evs = append(d.evs, &simEvent{at: d.Start.Add(at), ident: ident, kind: kind, fn: fn, sig: ident})
}

// AtSig is At with an explicit schedule-signature target.
func (d *Driver) AtSig(at time.Duration, kind, ident, sig string, fn func()) {
	d.evMu.Lock()
	defer d.evMu.Unlock()
	d.evs = append(d.evs, &simEvent{at: d.Start.Add(at), ident: ident, kind: kind, fn: fn, sig: sig})
}

// AtAbs schedules at an absolute bubble time.
func (d *Driver) AtAbs(at time.Time, kind, ident string, fn func()) {
	d.evMu.Lock()
	defer d.evMu.Unlock()
	d.evs = append(d.evs, &simEvent{at: at, ident: ident, kind: kind, fn: fn, sig: ident})
}

func (d *Driver) Stop() { d.stop = true }

func (d *Driver) allTickers() []*SimTicker {
	var ts []*SimTicker
	for _, c := range d.Clocks {
		ts = append(ts, c.Tickers()...)
	}
	return ts
}

func (d *Driver) nextFuture(now time.Time) (time.Time, bool) {
	var best time.Time
	ok := false
	d.evMu.Lock()
	evs := append([]*simEvent(nil), d.evs...)
	d.evMu.Unlock()
	for _, e := range evs {
		if e.at.After(now) && (!ok || e.at.Before(best)) {
			best, ok = e.at, true
		}
	}
	for _, t := range d.allTickers() {
		t.clk.mu.Lock()
		st, nx := t.stopped, t.next
		t.clk.mu.Unlock()
		if st {
			continue
		}
		if nx.After(now) && (!ok || nx.Before(best)) {
			best, ok = nx, true
		}
	}
	return best, ok
}

// expandTicks converts ticker fires that are due into events.
func (d *Driver) expandTicks(now time.Time) {
	for _, t := range d.allTickers() {
		t.clk.mu.Lock()
		for !t.stopped && !t.next.After(now) {
			fire := t.Fires
			t.Fires++
			at := t.next
			t.next = t.next.Add(t.period)
			tk := t
			delay := time.Duration(0)
			if d.TickDelay != nil {
				t.clk.mu.Unlock()
				delay = d.TickDelay(tk, fire)
				t.clk.mu.Lock()
			}
			if delay > 0 {
				d.Out.Fault("tick_late")
			}
			d.evMu.Lock()
			d.evs = append(d.evs, &simEvent{at: at.Add(delay), ident: fmt.Sprintf("tick/%s/%d", tk.Key, fire), kind: "tick", tk: tk})
			d.evMu.Unlock()
		}
		t.clk.mu.Unlock()
	}
}

func (d *Driver) popDue(now time.Time) *simEvent {
	d.evMu.Lock()
	defer d.evMu.Unlock()
	var due []*simEvent
	// the gate is asked once per ticker and call: a long stall leaves thousands of
	// withheld ticks of one ticker in the list, and asking for each of them in
	// every pass made a run with a 60 s stall of eight workers take minutes
	var gate map[*SimTicker]bool
	for _, e := range d.evs {
		if !e.at.After(now) {
			if e.tk != nil && d.TickGate != nil {
				open, seen := gate[e.tk]
				if !seen {
					if gate == nil {
						gate = map[*SimTicker]bool{}
					}
					open = d.TickGate(e.tk)
					gate[e.tk] = open
				}
				if !open {
					continue
				}
			}
			due = append(due, e)
		}
	}
	if len(due) == 0 {
		return nil
	}
	sort.SliceStable(due, func(i, j int) bool {
		if !due[i].at.Equal(due[j].at) {
			return due[i].at.Before(due[j].at)
		}
		hi, hj := H(d.Seed, due[i].ident), H(d.Seed, due[j].ident)
		if hi != hj {
			return hi < hj
		}
		return due[i].ident < due[j].ident
	})
	pick := due[0]
	for i, e := range d.evs {
		if e == pick {
			d.evs = append(d.evs[:i], d.evs[i+1:]...)
			break
		}
	}
	return pick
}

func (d *Driver) deliver(e *simEvent) {
	if e.tk != nil {
		e.tk.clk.mu.Lock()
		st := e.tk.stopped
		e.tk.clk.mu.Unlock()
		if st {
			return
		}
		d.CurKind, d.CurIdent = "tick", e.tk.Key
		d.Out.Step("tick", e.tk.Key)
		if d.BeforeTick != nil {
			d.BeforeTick(e.tk)
		}
		delivered := false
		select {
		case e.tk.ch <- time.Now():
			delivered = true
		default:
			d.Out.Fault("tick_dropped_receiver_busy")
		}
		d.Settle()
		if d.AfterTick != nil {
			d.AfterTick(e.tk, delivered)
		}
		if d.AfterStep != nil {
			d.AfterStep("tick", e.tk.Key)
		}
		d.CurKind, d.CurIdent = "", ""
		return
	}
	d.CurKind, d.CurIdent = e.kind, e.ident
	d.Out.Step(e.kind, e.sig)
	e.fn()
	d.Settle()
	if d.AfterStep != nil {
		d.AfterStep(e.kind, e.ident)
	}
	d.CurKind, d.CurIdent = "", ""
}

// Run advances simulated time to Start+until, delivering every stimulus due on
// the way, one at a time, each followed by quiescence. Ticks that TickGate
// withholds stay pending and are re-examined after every later stimulus.
func (d *Driver) Run(until time.Duration) {
	end := d.Start.Add(until)
	for !d.stop {
		beat("driver")
		now := time.Now()
		for !d.stop {
			d.expandTicks(now)
			e := d.popDue(now)
			if e == nil {
				break
			}
			d.deliver(e)
			now = time.Now()
		}
		next, ok := d.nextFuture(now)
		if !ok || next.After(end) {
			break
		}
		time.Sleep(next.Sub(now))
		d.Settle()
	}
	if now := time.Now(); end.After(now) && !d.stop {
		time.Sleep(end.Sub(now))
	}
	d.Settle()
	d.Out.SimMicros = int64(time.Now().Sub(d.Start) / time.Microsecond)
}

// ---------------------------------------------------------------------------
// SimTracer: the injected trace.Tracer used as observation point and as a
// cooperative park/release seam. It is called by refinery with no lock held.

type SimTracer struct {
	noop.Tracer
	Node string
	mu   sync.Mutex
	// gates: key -> channel the arriving goroutine blocks on
	gates  map[string]chan struct{}
	parked map[string]int
	// OnStart observes every span start (name, attributes lazily decoded).
	OnStart func(name string, attr func(key string) (attribute.Value, bool))
	// names for which attributes are decoded for gate keys
	workerBound map[int64]bool
	goidWorker  map[int64]int64
	Clock       *SimClock
}

func NewSimTracer(node string, clk *SimClock) *SimTracer {
	return &SimTracer{Node: node, gates: map[string]chan struct{}{}, parked: map[string]int{}, workerBound: map[int64]bool{}, goidWorker: map[int64]int64{}, Clock: clk}
}

var noopSpanV = func() trace.Span {
	_, s := noop.NewTracerProvider().Tracer("").Start(context.Background(), "")
	return s
}()

func (s *SimTracer) Start(ctx context.Context, name string, opts ...trace.SpanStartOption) (context.Context, trace.Span) {
	var cfg *trace.SpanConfig
	attr := func(key string) (attribute.Value, bool) {
		if cfg == nil {
			c := trace.NewSpanStartConfig(opts...)
			cfg = &c
		}
		for _, kv := range cfg.Attributes() {
			if string(kv.Key) == key {
				return kv.Value, true
			}
		}
		return attribute.Value{}, false
	}
	key := name
	if name == "collect_worker" {
		if v, ok := attr("worker_id"); ok {
			wid := v.AsInt64()
			key = fmt.Sprintf("collect_worker/%d", wid)
			if s.Clock != nil {
				g := goid()
				s.mu.Lock()
				done := s.workerBound[g]
				s.mu.Unlock()
				if !done {
					if s.Clock.BindByGoid(g, "collect", fmt.Sprintf("%s/worker/%d", s.Node, wid)) {
						s.mu.Lock()
						s.workerBound[g] = true
						s.goidWorker[g] = wid
						s.mu.Unlock()
					}
				}
			}
		}
	}
	if name == "makeDecision" {
		s.mu.Lock()
		wid, ok := s.goidWorker[goid()]
		s.mu.Unlock()
		if ok {
			key = fmt.Sprintf("makeDecision/%d", wid)
		}
	}
	if s.OnStart != nil {
		s.OnStart(name, attr)
	}
	s.mu.Lock()
	ch := s.gates[key]
	if ch != nil {
		s.parked[key]++
	}
	s.mu.Unlock()
	if ch != nil {
		<-ch
		s.mu.Lock()
		s.parked[key]--
		s.mu.Unlock()
	}
	return ctx, noopSpanV
}

// Park closes the gate for key: the next goroutine reaching it blocks.
func (s *SimTracer) Park(key string) {
	s.mu.Lock()
	if s.gates[key] == nil {
		s.gates[key] = make(chan struct{})
	}
	s.mu.Unlock()
}

// Release opens the gate.
func (s *SimTracer) Release(key string) {
	s.mu.Lock()
	if ch := s.gates[key]; ch != nil {
		close(ch)
		delete(s.gates, key)
	}
	s.mu.Unlock()
}

// StepOne lets the parked goroutine run exactly one iteration: the gate is
// re-armed before the goroutine is released.
func (s *SimTracer) StepOne(key string) {
	s.mu.Lock()
	if ch := s.gates[key]; ch != nil {
		s.gates[key] = make(chan struct{})
		close(ch)
	}
	s.mu.Unlock()
}

// WorkerGoid returns the goroutine id of the collector worker wid (0 if it has
// not been seen yet).
func (s *SimTracer) WorkerGoid(wid int64) int64 {
	s.mu.Lock()
	defer s.mu.Unlock()
	for g, w := range s.goidWorker {
		if w == wid {
			return g
		}
	}
	return 0
}

// Armed reports whether the gate for key is closed (whether or not a
// goroutine has reached it yet).
func (s *SimTracer) Armed(key string) bool {
	s.mu.Lock()
	defer s.mu.Unlock()
	return s.gates[key] != nil
}

func (s *SimTracer) Parked(key string) bool {
	s.mu.Lock()
	defer s.mu.Unlock()
	return s.parked[key] > 0
}

func (s *SimTracer) ReleaseAll() {
	s.mu.Lock()
	for k, ch := range s.gates {
		close(ch)
		delete(s.gates, k)
	}
	s.mu.Unlock()
}
