//go:build verif

package verifsim

import (
	"crypto/sha1"
	"encoding/binary"
	"fmt"
	"math"
	"os"
	"sort"
	"time"

	"github.com/honeycombio/refinery/collect"
	"github.com/honeycombio/refinery/collect/cache"
	"github.com/honeycombio/refinery/types"
)

// Oracles of World A, evaluated over the recorded history once the run has
// drained. Every message names spans/traces by their plan indices so that a
// replay file is readable.

const (
	siteCollect = "collect"
)

func i64(v any) (int64, bool) {
	switch x := v.(type) {
	case int64:
		return x, true
	case int:
		return int64(x), true
	case uint:
		return int64(x), true
	case uint64:
		return int64(x), true
	case float64:
		return int64(x), true
	}
	return 0, false
}

func (w *worldA) checkAll() {
	out := w.out
	if out.Harness != "" {
		return
	}
	// attach forwards
	for _, rec := range w.tx.recs {
		sr := w.spans[rec.spanID]
		if sr == nil {
			out.Violate("C02", "forwarded_span_never_offered", siteCollect, "a span with span_id=%q trace=%s was handed to the transmission but no such span was ever offered", rec.spanID, rec.traceID)
			continue
		}
		sr.fwd = append(sr.fwd, rec)
	}
	// buffers must be empty: every accepted span's trace eventually decided
	for i := 0; i < w.nWorkers; i++ {
		if b := w.coll.VerifBuffered(i, w.tracesCfgTimeout()); len(b) > 0 {
			tm := w.traces[b[0].TraceID]
			out.Violate("C02", "trace_never_decided", siteCollect, "worker %d still buffers %d trace(s) (e.g. trace#%d) after the last arrival + TraceTimeout + SendDelay + enough ticks", i, len(b), tm.idx)
		}
		if a, b := w.coll.VerifQueueLens(i); a+b > 0 {
			out.Violate("C02", "span_never_processed", siteCollect, "worker %d still has %d queued spans at the end", i, a+b)
		}
	}
	if n := w.coll.VerifOutgoingLen(); n > 0 {
		out.Violate("C02", "decided_trace_never_sent", siteCollect, "%d decided traces still waiting for the sender at the end", n)
	}

	ids := make([]int, 0, len(w.byIdx))
	for i := range w.byIdx {
		ids = append(ids, i)
	}
	sort.Ints(ids)
	for _, idx := range ids {
		w.checkTrace(w.byIdx[idx])
	}
	w.checkTicks()
	w.checkEjections()
	w.checkDeterministicDecisions()
	// canonical log
	for _, idx := range ids {
		tm := w.byIdx[idx]
		line := fmt.Sprintf("trace#%d w=%d", idx, tm.worker)
		for _, d := range tm.decisions {
			line += fmt.Sprintf(" [dec t=%v kept=%v rate=%d %s %q spans=%d]", d.at.Sub(w.start), d.kept, d.rate, d.sendReason, d.reason, d.spans)
		}
		for _, sr := range tm.offered {
			line += fmt.Sprintf(" %s(acc=%v late=%v fwd=%d", sr.spanID, sr.accepted, sr.late, len(sr.fwd))
			for _, f := range sr.fwd {
				line += fmt.Sprintf("@%v/r%d", f.at, f.rate)
			}
			line += ")"
		}
		out.Log = append(out.Log, line)
	}
}

func (w *worldA) dryRunAt(step int) bool { return w.epochAt(step).dryRun }

func (w *worldA) falsePositiveDrop(tm *traceModel) bool {
	// the dropped-trace filter answers "dropped" for an ID the model never
	// recorded as dropped: a measured false positive (exempt by the statement)
	for _, d := range tm.decisions {
		if !d.kept {
			return false
		}
	}
	return cache.VerifDroppedFilterHas(w.coll.VerifSentCache(tm.worker), tm.id)
}

func (w *worldA) checkTrace(tm *traceModel) {
	out := w.out
	var accepted []*spanRec
	for _, sr := range tm.offered {
		if sr.accepted {
			accepted = append(accepted, sr)
		}
		if len(sr.fwd) > 1 {
			out.Violate("C02", "span_forwarded_twice", siteCollect, "span %s of trace#%d was handed to the transmission %d times (steps %d and %d)", sr.spanID, tm.idx, len(sr.fwd), sr.fwd[0].step, sr.fwd[1].step)
		}
		if !sr.accepted && len(sr.fwd) > 0 {
			out.Violate("C02", "refused_span_forwarded", siteCollect, "span %s was refused (queue full) but was forwarded", sr.spanID)
		}
		if sr.accepted && sr.procAt.IsZero() {
			out.Violate("C02", "span_never_processed", siteCollect, "accepted span %s of trace#%d was never processed by its worker", sr.spanID, tm.idx)
		}
	}
	if len(accepted) == 0 {
		return
	}
	if len(tm.decisions) == 0 || tm.live {
		out.Violate("C02", "trace_never_decided", siteCollect, "trace#%d has %d accepted spans but no decision by the end of the run (budget: TraceTimeout+SendDelay+ticks after the last arrival)", tm.idx, len(accepted))
		return
	}
	first := tm.decisions[0]
	nFwd := 0
	for _, sr := range accepted {
		if len(sr.fwd) > 0 {
			nFwd++
			if sr.fwd[0].step < first.step {
				out.Violate("C02", "forwarded_before_decision", siteCollect, "span %s of trace#%d forwarded at step %d, before the trace's decision at step %d", sr.spanID, tm.idx, sr.fwd[0].step, first.step)
			}
		}
	}
	exempt := tm.forgotten
	if len(tm.decisions) > 1 && !tm.forgotten {
		out.Violate("C01", "trace_decided_twice", siteCollect, "trace#%d was decided %d times (steps %d, %d) although its decision was still within the kept capacity (model LRU cap %d/worker)", tm.idx, len(tm.decisions), tm.decisions[0].step, tm.decisions[1].step, w.keptCap)
		exempt = true
	}
	if exempt {
		out.Probe("trace_exempt_forgotten")
		return
	}
	if w.falsePositiveDrop(tm) {
		out.Probe("trace_exempt_filter_false_positive")
		return
	}
	// dry run in force for the whole life of the trace?
	dryAll, dryAny := true, false
	for _, sr := range accepted {
		st := sr.procStep
		if len(sr.fwd) > 0 {
			st = sr.fwd[0].step
		}
		if w.dryRunAt(st) {
			dryAny = true
		} else {
			dryAll = false
		}
	}
	if w.dryRunAt(first.step) {
		dryAny = true
	} else {
		dryAll = false
	}
	if dryAny && !dryAll {
		// dry run toggled during the life of the trace: out of scope of C01/C05 statements
		out.Probe("trace_spans_dry_run_toggle")
		return
	}
	if dryAll {
		out.Probe("dry_run_trace")
		for _, sr := range accepted {
			if len(sr.fwd) == 0 {
				out.Violate("C05", "dry_run_span_not_forwarded", siteCollect, "dry run is on but span %s of trace#%d (sampler decision kept=%v, late=%v) was not forwarded", sr.spanID, tm.idx, first.kept, sr.late)
				out.Violate("C02", "dry_run_span_not_forwarded", siteCollect, "dry run is on but accepted span %s of trace#%d (sampler decision kept=%v, late=%v) was never handed to the transmission", sr.spanID, tm.idx, first.kept, sr.late)
				continue
			}
			f := sr.fwd[0]
			want := sr.client
			if want == 0 {
				want = 1
			}
			// "absent and zero being equivalent": a forwarded 0 means the same as 1
			got := f.rate
			if got == 0 {
				got = 1
			}
			if got != want {
				out.Violate("C05", "dry_run_sample_rate", siteCollect, "dry run: span %s (late=%v) client rate %d forwarded with SampleRate %d (want %d)", sr.spanID, sr.late, sr.client, f.rate, want)
			}
			v, ok := f.fields["meta.refinery.dryrun.kept"]
			b, isb := v.(bool)
			if !ok || !isb {
				out.Violate("C05", "dry_run_kept_field_missing", siteCollect, "dry run: span %s (late=%v) forwarded without meta.refinery.dryrun.kept (got %v)", sr.spanID, sr.late, v)
			} else if b != first.kept {
				out.Violate("C05", "dry_run_kept_field_wrong", siteCollect, "dry run: span %s (late=%v) says dryrun.kept=%v but the sampler decided kept=%v", sr.spanID, sr.late, b, first.kept)
			}
			if !first.kept {
				out.Probe("dry_run_would_drop_forwarded")
			}
			if sr.late {
				out.Probe("dry_run_late_span")
			}
		}
		w.checkDecoration(tm, accepted, first)
		return
	}
	// normal mode
	if first.kept {
		out.Probe("kept_trace")
	} else {
		out.Probe("dropped_trace")
	}
	if nFwd != 0 && nFwd != len(accepted) {
		var miss, got []string
		for _, sr := range accepted {
			if len(sr.fwd) == 0 {
				miss = append(miss, fmt.Sprintf("%s(late=%v)", sr.spanID, sr.late))
			} else {
				got = append(got, sr.spanID)
			}
		}
		out.Violate("C01", "partial_trace_forwarded", siteCollect, "trace#%d (decision kept=%v at step %d): forwarded %v but not %v", tm.idx, first.kept, first.step, got, miss)
	}
	for _, sr := range accepted {
		if first.kept && len(sr.fwd) == 0 {
			out.Violate("C02", "kept_span_not_forwarded", siteCollect, "trace#%d was kept (step %d) but its accepted span %s (late=%v) was never handed to the transmission", tm.idx, first.step, sr.spanID, sr.late)
			if first.sendReason == collect.TraceSendEjectedMemsize && !sr.late {
				out.Violate("C07", "ejected_kept_trace_not_forwarded", siteCollect, "trace#%d was ejected for memory and kept (step %d) but its span %s was never handed to the transmission", tm.idx, first.step, sr.spanID)
			}
		}
		if !first.kept && len(sr.fwd) > 0 {
			out.Violate("C02", "dropped_span_forwarded", siteCollect, "trace#%d was dropped (step %d) but span %s (late=%v) was forwarded", tm.idx, first.step, sr.spanID, sr.late)
		}
	}
	if first.kept {
		// C04 sample rates
		if first.rate < 1 {
			out.Violate("C04", "trace_rate_below_one", siteCollect, "trace#%d kept with sampler rate %d", tm.idx, first.rate)
		}
		for _, sr := range accepted {
			if len(sr.fwd) == 0 {
				continue
			}
			f := sr.fwd[0]
			c := sr.client
			if c == 0 {
				c = 1
			}
			tr := first.rate
			if tr < 1 {
				tr = 1
			}
			want := c * tr
			path := "on-time"
			if sr.late {
				path = "late"
				out.Probe("rate_checked_late")
			}
			if sr.client > 1 {
				out.Probe("rate_checked_client_rate")
			}
			if f.rate != want {
				out.Violate("C04", "sample_rate_product", siteCollect, "%s span %s: client rate %d x trace rate %d should give %d, forwarded SampleRate=%d", path, sr.spanID, sr.client, first.rate, want, f.rate)
			}
			fin, ok := i64(f.fields[types.MetaRefineryFinalSampleRate])
			if !ok || uint(fin) != want {
				out.Violate("C04", "final_sample_rate_field", siteCollect, "%s span %s: meta.refinery.final_sample_rate=%v, want %d", path, sr.spanID, f.fields[types.MetaRefineryFinalSampleRate], want)
			}
			orig, has := i64(f.fields[types.MetaRefineryOriginalSampleRate])
			if sr.client != 0 {
				if !has || uint(orig) != sr.client {
					out.Violate("C04", "original_sample_rate_field", siteCollect, "%s span %s: client rate %d but meta.refinery.original_sample_rate=%v", path, sr.spanID, sr.client, f.fields[types.MetaRefineryOriginalSampleRate])
				}
			} else if has && orig != 0 {
				out.Violate("C04", "original_sample_rate_field", siteCollect, "%s span %s: no client rate but meta.refinery.original_sample_rate=%v", path, sr.spanID, orig)
			}
		}
		w.checkDecoration(tm, accepted, first)
	}
}

// checkDecoration: C06.
func (w *worldA) checkDecoration(tm *traceModel, accepted []*spanRec, d *decisionRec) {
	out := w.out
	host, _ := os.Hostname()
	for _, sr := range accepted {
		if len(sr.fwd) == 0 {
			continue
		}
		f := sr.fwd[0]
		ep := w.epochAt(f.step)
		path := "on-time"
		if sr.late {
			path = "late"
		}
		for k, v := range ep.attrs {
			if got, _ := f.fields[k].(string); got != v {
				out.Violate("C06", "additional_attribute", siteCollect, "%s span %s forwarded at step %d: AdditionalAttributes %s=%q in force, span has %v", path, sr.spanID, f.step, k, v, f.fields[k])
			}
		}
		for _, k := range []string{"deploy", "zone"} {
			if _, want := ep.attrs[k]; !want {
				if _, has := f.fields[k]; has {
					out.Violate("C06", "additional_attribute_stale", siteCollect, "%s span %s forwarded at step %d carries %s=%v although AdditionalAttributes in force is %v", path, sr.spanID, f.step, k, f.fields[k], ep.attrs)
				}
			}
		}
		hn, _ := f.fields[types.MetaRefineryLocalHostname].(string)
		if ep.hostMeta {
			out.Probe("host_meta_on")
			if hn != host || host == "" {
				out.Violate("C06", "hostname_missing", "collect.hostname", "%s span %s forwarded at step %d with AddHostMetadataToTrace on (epoch from step %d): meta.refinery.local_hostname=%q, want %q", path, sr.spanID, f.step, ep.step, hn, host)
			}
		} else if hn != "" {
			out.Violate("C06", "hostname_present_when_disabled", "collect.hostname", "%s span %s forwarded at step %d with AddHostMetadataToTrace off (epoch from step %d) still carries local_hostname=%q", path, sr.spanID, f.step, ep.step, hn)
		}
		reason, _ := f.fields[types.MetaRefineryReason].(string)
		if ep.ruleReason {
			want := d.reason
			if sr.late {
				want = d.reason + " - late arriving span"
				if d.reason == "" || !d.kept {
					// only kept decisions have room for a reason in the decision
					// cache; a late span of a dropped trace is forwarded in dry
					// run only, and then says just that it is late
					want = "late arriving span"
				}
			}
			if reason != want {
				out.Violate("C06", "rule_reason", siteCollect, "%s span %s forwarded at step %d with AddRuleReasonToTrace on: meta.refinery.reason=%q, want %q", path, sr.spanID, f.step, reason, want)
			}
			sendReason, _ := f.fields[types.MetaRefinerySendReason].(string)
			wantSR := d.sendReason
			if sr.late {
				wantSR = collect.TraceSendLateSpan
			}
			if sendReason != wantSR {
				out.Violate("C03", "send_reason_field", siteCollect, "%s span %s: meta.refinery.send_reason=%q, want %q", path, sr.spanID, sendReason, wantSR)
			}
		} else if reason != "" {
			out.Violate("C06", "rule_reason_present_when_disabled", siteCollect, "%s span %s forwarded at step %d with AddRuleReasonToTrace off carries reason %q", path, sr.spanID, f.step, reason)
		}
		if sr.kind == skRoot && (!w.dryRunAt(f.step) || d.kept) {
			// counts on roots forwarded by the trace sampler
			var wE, wL, wS, wT int
			if sr.late {
				wE, wL, wS = sr.lateEvents, sr.lateLinks, sr.lateSpans
			} else {
				wE, wL, wS = d.nEvents, d.nLinks, d.nSpans
			}
			wT = wE + wL + wS
			gE, _ := i64(f.fields[types.MetaSpanEventCount])
			gL, _ := i64(f.fields[types.MetaSpanLinkCount])
			gS, _ := i64(f.fields[types.MetaSpanCount])
			gT, _ := i64(f.fields[types.MetaEventCount])
			switch {
			case ep.cnts:
				out.Probe("root_counts_checked")
				if int(gE) != wE || int(gL) != wL || int(gS) != wS || int(gT) != wT {
					out.Violate("C06", "root_counts", siteCollect, "%s root %s of trace#%d forwarded at step %d with AddCountsToRoot: span_event_count=%d link=%d span=%d event=%d, model has %d/%d/%d/%d", path, sr.spanID, tm.idx, f.step, gE, gL, gS, gT, wE, wL, wS, wT)
				}
			case ep.spanCnt:
				out.Probe("root_span_count_checked")
				if int(gS) != wT {
					out.Violate("C06", "root_span_count", siteCollect, "%s root %s of trace#%d forwarded at step %d with AddSpanCountToRoot: meta.span_count=%d, model has %d", path, sr.spanID, tm.idx, f.step, gS, wT)
				}
			default:
				if gE != 0 || gL != 0 || gS != 0 || gT != 0 {
					out.Violate("C06", "root_counts_present_when_disabled", siteCollect, "%s root %s of trace#%d forwarded at step %d (count options off since step %d) carries counts %d/%d/%d/%d", path, sr.spanID, tm.idx, f.step, ep.step, gE, gL, gS, gT)
				}
			}
		}
	}
}

// checkTicks: C03.
func (w *worldA) checkTicks() {
	out := w.out
	byStep := map[int][]*decisionRec{}
	// steps in which a worker handled a send tick that had fired while it was stalled
	handledAt := map[[2]int]bool{}
	for _, tr := range w.tickLog {
		if tr.handled {
			handledAt[[2]int{tr.step, tr.worker}] = true
		}
	}
	for _, tm := range w.traces {
		for _, d := range tm.decisions {
			byStep[d.step] = append(byStep[d.step], d)
			tc := w.cfg.GetTracesConfig()
			// (1) never before the deadline unless memory pressure
			if d.sendReason != collect.TraceSendEjectedMemsize {
				if d.at.Before(d.deadline) {
					out.Violate("C03", "decided_before_deadline", siteCollect, "trace#%d decided at t=%v (%s) but its deadline is t=%v (first span t=%v)", tm.idx, d.at.Sub(w.start), d.sendReason, d.deadline.Sub(w.start), d.first.Sub(w.start))
				}
				if d.stepK != "tick" && !handledAt[[2]int{d.step, d.worker}] && !w.p.On("out_queue_cap") {
					out.Violate("C03", "decided_outside_send_tick", siteCollect, "trace#%d decided (%s) during a %q step, not a send tick", tm.idx, d.sendReason, d.stepK)
				}
				// (3) reported reason precedence
				want := collect.TraceSendExpired
				if d.hasRoot {
					want = collect.TraceSendGotRoot
				} else if tc.SpanLimit > 0 && uint(d.spans) > tc.SpanLimit {
					want = collect.TraceSendSpanLimit
				}
				if d.sendReason != want {
					out.Violate("C03", "send_reason", siteCollect, "trace#%d decided with send reason %q; root present=%v spans=%d SpanLimit=%d so it should be %q", tm.idx, d.sendReason, d.hasRoot, d.spans, tc.SpanLimit, want)
				}
				switch want {
				case collect.TraceSendGotRoot:
					out.Probe("reason_got_root")
				case collect.TraceSendSpanLimit:
					out.Probe("reason_span_limit")
				default:
					out.Probe("reason_expired")
				}
			}
		}
	}
	for _, tr := range w.tickLog {
		if tr.deferred {
			continue // judged when handled
		}
		if w.p.On("out_queue_cap") {
			// with a shrunk outgoing queue a worker can get stuck in the middle of a
			// tick and finish it steps later: the per-step account does not apply
			out.Probe("tick_account_skipped_small_outgoing_queue")
			continue
		}
		var decided []*decisionRec
		for _, d := range byStep[tr.step] {
			if d.worker == tr.worker && d.sendReason != collect.TraceSendEjectedMemsize {
				decided = append(decided, d)
			}
		}
		want := len(tr.expired)
		if tr.maxExp > 0 && want > tr.maxExp {
			want = tr.maxExp
			out.Probe("tick_backlog_over_max_expired")
		}
		if len(tr.expired) > 0 {
			out.Probe("tick_with_expired")
		}
		if len(decided) != want {
			out.Violate("C03", "tick_decides_wrong_number", siteCollect, "send tick for worker %d at t=%v: %d traces past their deadline, MaxExpiredTraces=%d, so %d should be decided, but %d were", tr.worker, tr.at.Sub(w.start), len(tr.expired), tr.maxExp, want, len(decided))
			continue
		}
		// earliest deadline first
		dec := map[string]bool{}
		var maxD time.Time
		for _, d := range decided {
			dec[d.traceID] = true
			if d.deadline.After(maxD) {
				maxD = d.deadline
			}
		}
		for _, tm := range tr.expired {
			if !dec[tm.id] {
				// its deadline at that tick: the deadline recorded with its (later) decision
				var dl time.Time
				for _, d := range tm.decisions {
					if d.step > tr.step {
						dl = d.deadline
						break
					}
				}
				if !dl.IsZero() && dl.Before(maxD) {
					out.Violate("C03", "not_earliest_deadline_first", siteCollect, "send tick for worker %d at t=%v left trace#%d (deadline t=%v) waiting while deciding a trace with the later deadline t=%v", tr.worker, tr.at.Sub(w.start), tm.idx, dl.Sub(w.start), maxD.Sub(w.start))
				}
			}
		}
	}
}

// checkEjections: C07.
func (w *worldA) checkEjections() {
	out := w.out
	for _, ej := range w.ejections {
		over := ej.heap - ej.maxAlloc
		per := int(over) / w.nWorkers
		for wid := 0; wid < w.nWorkers; wid++ {
			before := ej.before[wid]
			if len(before) == 0 {
				continue
			}
			if ej.stalled[wid] {
				// the worker was stalled when the memory check ran: it ejects later, in
				// another step and from another buffer than the one recorded here
				out.Probe("ejection_deferred_worker_stalled")
				continue
			}
			info := map[string]collect.VerifTraceInfo{}
			for _, b := range before {
				info[b.TraceID] = b
			}
			// the decisions of one step by one worker are sequential; recover
			// their order from the order in which they were recorded
			order := w.decisionOrder(ej.step, wid)
			out.Probe("ejection_checked")
			// sanity of the estimate itself: every span weighs at least its own
			// size, so a trace's estimated impact can never be below its data size
			// (an estimate that is not refreshed when the trace grows would be)
			for _, b := range before {
				if b.Impact < b.DataSize {
					out.Violate("C07", "impact_estimate_below_data_size", siteCollect, "worker %d: trace#%d holds %d bytes in %d spans but its estimated impact is %d", wid, w.traces[b.TraceID].idx, b.DataSize, b.Spans, b.Impact)
				}
			}
			tt := w.tracesCfgTimeout()
			upper := func(b collect.VerifTraceInfo) int {
				// the documented estimate: size x (1 + 4 x age / TraceTimeout), age at most that of the trace
				age := ej.at.Sub(b.Arrival)
				return (int(4*age/tt) + 1) * b.DataSize
			}
			released := 0
			remaining := map[string]bool{}
			for _, b := range before {
				remaining[b.TraceID] = true
			}
			for k, d := range order {
				if d.sendReason != collect.TraceSendEjectedMemsize {
					out.Violate("C07", "ejected_with_wrong_send_reason", siteCollect, "memory ejection at step %d decided trace#%d with send reason %q", ej.step, w.traces[d.traceID].idx, d.sendReason)
				}
				if released > per {
					out.Violate("C07", "ejected_more_than_needed", siteCollect, "worker %d: already released %d bytes > share %d of the overage, yet ejected trace#%d too", wid, released, per, w.traces[d.traceID].idx)
				}
				me := info[d.traceID]
				delete(remaining, d.traceID)
				for r := range remaining {
					// independent of the memoised value: a trace whose largest possible
					// estimate is below another's smallest possible one must not go first
					if upper(me) < info[r].DataSize {
						out.Violate("C07", "not_heaviest_first", siteCollect, "worker %d ejected trace#%d (at most %d by the documented estimate) as number %d while trace#%d holding %d bytes stayed", wid, w.traces[d.traceID].idx, upper(me), k+1, w.traces[r].idx, info[r].DataSize)
					}
					if info[r].Impact > me.Impact {
						out.Violate("C07", "not_heaviest_first", siteCollect, "worker %d ejected trace#%d (impact %d) as number %d while trace#%d with impact %d stayed", wid, w.traces[d.traceID].idx, me.Impact, k+1, w.traces[r].idx, info[r].Impact)
					}
				}
				released += me.DataSize
			}
			if released <= per && len(remaining) > 0 {
				out.Violate("C07", "ejected_too_little", siteCollect, "worker %d: overage share %d bytes, released only %d and %d traces remain buffered", wid, per, released, len(remaining))
			}
			if len(remaining) == 0 {
				out.Probe("ejection_emptied_buffer")
			} else {
				out.Probe("ejection_partial")
			}
			// left the buffer / untouched
			after := map[string]bool{}
			for _, a := range w.afterEj[ej.step][wid] {
				after[a.TraceID] = true
			}
			for _, d := range order {
				if after[d.traceID] {
					out.Violate("C07", "ejected_trace_still_buffered", siteCollect, "trace#%d was decided by memory ejection but is still in worker %d's buffer", w.traces[d.traceID].idx, wid)
				}
			}
			for r := range remaining {
				if !after[r] {
					out.Violate("C07", "non_ejected_trace_left_buffer", siteCollect, "trace#%d was not decided by the ejection but is gone from worker %d's buffer", w.traces[r].idx, wid)
				}
			}
		}
	}
}

func (w *worldA) decisionOrder(step, worker int) []*decisionRec {
	var out []*decisionRec
	for _, d := range w.decLog {
		if d.step == step && d.worker == worker {
			out = append(out, d)
		}
	}
	return out
}

// checkDeterministicDecisions: when the one configured sampler is the
// deterministic sampler for the whole run, what it says about a trace is a
// documented function of the trace ID and the configured rate (keep iff the
// first four bytes of SHA-1(trace ID + salt) are at most MaxUint32/rate; rate
// as configured). The decision the collector applies, however the trace came to
// be decided (tick, span limit, ejection), is compared with that function
// computed here, not with what the collector reports.
func (w *worldA) checkDeterministicDecisions() {
	preset, ok := w.p.N["sampler"]
	if !ok {
		return
	}
	rates := map[int64]uint{0: 1, 1: 2, 2: 5, 9: 1 << 31}
	rate, ok := rates[preset]
	if !ok {
		return
	}
	for _, op := range w.p.Ops {
		if op.K == "reload" && op.S == "sampler" {
			return
		}
	}
	for _, tm := range w.traces {
		for _, d := range tm.decisions {
			keep := true
			if rate > 1 {
				sum := sha1.Sum([]byte(tm.id + "5VQ8l2jE5aJLPVqk"))
				keep = binary.BigEndian.Uint32(sum[:4]) <= math.MaxUint32/uint32(rate)
			}
			w.out.Probe("decision_compared_with_deterministic_function")
			if d.kept != keep {
				w.out.Violate("C02", "decision_not_the_samplers", siteCollect, "trace#%d: the deterministic sampler at rate %d says keep=%v for this trace ID, the collector applied keep=%v", tm.idx, rate, keep, d.kept)
			}
			if d.rate != rate {
				w.out.Violate("C04", "trace_rate_not_the_samplers", siteCollect, "trace#%d: the deterministic sampler is configured with rate %d, the collector decided the trace at rate %d", tm.idx, rate, d.rate)
			}
		}
	}
}
