//go:build verif

package sample

// Read-only accessors for the simulation harness (/verif), added through a
// build overlay; called only at quiescence.

// VerifDyn returns the sampler's config (pointer to its *config.XxxSamplerConfig)
// and the underlying dynsampler-go instance (nil for samplers without one).
func VerifDyn(s Sampler) (cfg any, dyn any) {
	switch x := s.(type) {
	case *DynamicSampler:
		return x.Config, x.dynsampler
	case *EMADynamicSampler:
		return x.Config, x.dynsampler
	case *TotalThroughputSampler:
		return x.Config, x.dynsampler
	case *EMAThroughputSampler:
		return x.Config, x.dynsampler
	case *WindowedThroughputSampler:
		return x.Config, x.dynsampler
	case *DeterministicSampler:
		return x.Config, nil
	case *RulesBasedSampler:
		return x.Config, nil
	}
	return nil, nil
}

// VerifDownstream lists the downstream samplers of a rules-based sampler.
func VerifDownstream(s Sampler) []Sampler {
	r, ok := s.(*RulesBasedSampler)
	if !ok {
		return nil
	}
	var out []Sampler
	for _, rule := range r.Config.Rules {
		if rule.Sampler == nil {
			continue
		}
		if ds, ok := r.samplers[rule.String()]; ok {
			out = append(out, ds)
		}
	}
	return out
}

// VerifShared returns the shared dynsampler registry (key -> instance).
func (s *SamplerFactory) VerifShared() map[string]any {
	s.mutex.Lock()
	defer s.mutex.Unlock()
	m := map[string]any{}
	for k, e := range s.sharedDynsamplers {
		m[k] = e.dynsampler
	}
	return m
}
