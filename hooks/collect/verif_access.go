//go:build verif

package collect

import (
	"time"

	"github.com/honeycombio/refinery/collect/cache"
	"github.com/honeycombio/refinery/sample"
)

// Read-only accessors for the simulation harness (/verif). This file is added
// to the package through a build overlay; it is not part of /repo. They are
// called only at quiescence (no goroutine of the collector is running).

type VerifTraceInfo struct {
	TraceID  string
	SendBy   time.Time
	Arrival  time.Time
	DataSize int
	Spans    int
	HasRoot  bool
	Impact   int // the estimate the ejection code would sort by right now
	Sent     bool
}

func (i *InMemCollector) VerifWorkers() int { return len(i.workers) }

func (i *InMemCollector) VerifWorkerFor(traceID string) int { return i.getWorkerIDForTrace(traceID) }

func (i *InMemCollector) VerifBuffered(worker int, traceTimeout time.Duration) []VerifTraceInfo {
	w := i.workers[worker]
	var out []VerifTraceInfo
	for _, t := range w.cache.GetAll() {
		imp := t.VerifTotalImpactMemo()
		if imp == 0 {
			for _, sp := range t.GetSpans() {
				imp += sp.CacheImpact(traceTimeout)
			}
		}
		out = append(out, VerifTraceInfo{
			TraceID: t.TraceID, SendBy: t.SendBy, Arrival: t.ArrivalTime, DataSize: t.DataSize,
			Spans: int(t.DescendantCount()), HasRoot: t.RootSpan != nil, Impact: imp, Sent: t.Sent,
		})
	}
	return out
}

func (i *InMemCollector) VerifSentCache(worker int) cache.TraceSentCache {
	return i.workers[worker].sampleCache
}

func (i *InMemCollector) VerifQueueLens(worker int) (incoming, peer int) {
	w := i.workers[worker]
	return len(w.incoming), len(w.fromPeer)
}

func (i *InMemCollector) VerifOutgoingLen() int { return len(i.tracesToSend) }

func (i *InMemCollector) VerifHostname() string { return i.hostname }

// VerifWorkerSamplers returns the worker's lazily created samplers by selector.
func (i *InMemCollector) VerifWorkerSamplers(worker int) map[string]sample.Sampler {
	m := map[string]sample.Sampler{}
	for k, v := range i.workers[worker].datasetSamplers {
		m[k] = v
	}
	return m
}
