//go:build verif

package cache

// Read-only accessors for the simulation harness (/verif), added through a
// build overlay. None of them changes recency or counts.

// VerifPeekKept reports whether id has a kept record, without touching LRU order.
func VerifPeekKept(c TraceSentCache, id string) (rate uint, reason string, found bool) {
	cc, ok := c.(*cuckooSentCache)
	if !ok {
		return 0, "", false
	}
	rec, found := cc.kept.Peek(id)
	if !found {
		return 0, "", false
	}
	r, _ := cc.keptReasons.Get(uint(rec.reason))
	return rec.Rate(), r, true
}

// VerifKeptKeys lists the kept IDs oldest first.
func VerifKeptKeys(c TraceSentCache) []string {
	cc, ok := c.(*cuckooSentCache)
	if !ok {
		return nil
	}
	return cc.kept.Keys()
}

// VerifDroppedFilterHas consults only the cuckoo filter.
func VerifDroppedFilterHas(c TraceSentCache, id string) bool {
	cc, ok := c.(*cuckooSentCache)
	if !ok {
		return false
	}
	return cc.dropped.Check(id)
}

// VerifRecentDroppedHas consults only the recent-drop set.
func VerifRecentDroppedHas(c TraceSentCache, id string) bool {
	cc, ok := c.(*cuckooSentCache)
	if !ok {
		return false
	}
	return cc.recentDroppedIDs.Contains(id)
}

// VerifAddQueueLen is the number of drop records not yet in the filter.
func VerifAddQueueLen(c TraceSentCache) int {
	cc, ok := c.(*cuckooSentCache)
	if !ok {
		return 0
	}
	return len(cc.dropped.addch)
}
