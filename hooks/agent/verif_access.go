//go:build verif

package agent

import (
	"context"
	"time"

	"github.com/jonboulle/clockwork"
	"github.com/open-telemetry/opamp-go/client"

	"github.com/honeycombio/refinery/config"
	"github.com/honeycombio/refinery/internal/health"
	"github.com/honeycombio/refinery/metrics"
)

// Overlay-added for the /verif harness: builds an Agent around a supplied
// OpAMP client and clock and starts the same two loops connect() starts.

func VerifNewAgent(clk clockwork.Clock, lg Logger, cfg config.Config, met metrics.Metrics, h health.Reporter, cl client.OpAMPClient, healthEvery, usageEvery time.Duration) *Agent {
	ctx, cancel := context.WithCancel(context.Background())
	a := &Agent{
		ctx: ctx, cancel: cancel, clock: clk, logger: lg, agentType: serviceName, agentVersion: "verif",
		effectiveConfig: cfg, metrics: met, health: h, usageTracker: newUsageTracker(),
		healthCheckInterval: healthEvery, reportUsageInterval: usageEvery, opampClient: cl,
	}
	a.createAgentIdentity()
	go a.healthCheck()
	go a.reportUsagePeriodically()
	return a
}

// VerifHeld returns what the usage tracker still holds (not yet successfully
// sent), per signal.
func (a *Agent) VerifHeld() map[string]float64 {
	a.usageTracker.mut.Lock()
	defer a.usageTracker.mut.Unlock()
	m := map[string]float64{}
	for s, v := range a.usageTracker.currentDataPoints {
		m[string(s)] += v
	}
	for s, v := range a.usageTracker.lastDataPoints {
		m[string(s)] += v
	}
	return m
}
