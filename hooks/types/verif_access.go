//go:build verif

package types

// VerifTotalImpactMemo exposes the memoised trace impact without computing
// (and therefore without memoising) it. Overlay-added for the /verif harness.
func (t *Trace) VerifTotalImpactMemo() int { return t.totalImpact }
