//go:build verif

package route

import "net/http"

// VerifHandler returns the router's fully assembled HTTP handler (mux and
// middleware) so that the simulation harness can invoke it in-process.
// Overlay-added for /verif; valid after LnS().
func (r *Router) VerifHandler() http.Handler { return r.server.Handler }
