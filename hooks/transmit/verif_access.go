//go:build verif

package transmit

// VerifWarmZstd makes the package-level zstd encoder create its internal
// channels now. The harness calls it once outside any synctest bubble, because
// a channel created lazily inside one bubble must not be used from the next.
func VerifWarmZstd() { _ = zstdEncoder.EncodeAll([]byte("warm"), nil) }
